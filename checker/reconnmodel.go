package main

import (
	"go/token"
	"go/types"

	"golang.org/x/tools/go/ssa"
)

// reconnModel describes the reconnect loop goroutine started by (*reconnectClient).Connect.
type reconnModel struct {
	Outer     *ssa.Function // (*reconnectClient).Connect
	F         *ssa.Function // the loop closure
	Go        *ssa.Go
	Dial      *ssa.Call
	Cli       ssa.Value // dialled client (extract #0)
	DialErr   ssa.Value
	DialOK    []ifEdge
	SetClient *ssa.Call
	Connect   *ssa.Call
	ConnErr   ssa.Value
	Session   ssa.Value
	ConnOK    []ifEdge
	Resub     *ssa.Call
	Retry     *ssa.Call
	WaitSel   *ssa.Select // the redial wait (contains time.After)
	After     *ssa.Call   // time.After call
	ConnSel   *ssa.Select // the connected-phase wait (contains cli.Done())
	KeepAlive *ssa.Function
	KeepGo    *ssa.Go
}

func (c *Ctx) reconnModel() (*reconnModel, string) {
	outer := c.Method("reconnectClient", "Connect")
	if outer == nil {
		return nil, "(*reconnectClient).Connect not found"
	}
	m := &reconnModel{Outer: outer}
	eachInstr(outer, func(in ssa.Instruction) {
		if g, ok := in.(*ssa.Go); ok {
			if fn := c.StaticCalleeOf(&g.Call); fn != nil {
				m.F = fn
				m.Go = g
			}
		}
	})
	if m.F == nil {
		return nil, "reconnect loop goroutine not found"
	}
	f := m.F
	rcSet := c.Method("RetryClient", "SetClient")
	rcConn := c.Method("RetryClient", "Connect")
	rcResub := c.Method("RetryClient", "Resubscribe")
	rcRetry := c.Method("RetryClient", "Retry")
	eachInstr(f, func(in ssa.Instruction) {
		switch x := in.(type) {
		case *ssa.Call:
			cc := &x.Call
			if cc.IsInvoke() && cc.Method.Name() == "DialContext" {
				m.Dial = x
				return
			}
			switch c.StaticCalleeOf(cc) {
			case nil:
			case rcSet:
				m.SetClient = x
			case rcConn:
				m.Connect = x
			case rcResub:
				m.Resub = x
			case rcRetry:
				m.Retry = x
			}
			if isStdCall(cc, "time", "After") {
				m.After = x
			}
		case *ssa.Go:
			if fn := c.StaticCalleeOf(&x.Call); fn != nil {
				m.KeepAlive = fn
				m.KeepGo = x
			}
		}
	})
	if m.Dial == nil {
		return nil, "no DialContext call in the reconnect loop"
	}
	if m.Connect == nil {
		return nil, "no RetryClient.Connect call in the reconnect loop"
	}
	for _, u := range *m.Dial.Referrers() {
		if ex, ok := u.(*ssa.Extract); ok {
			if ex.Index == 0 {
				m.Cli = ex
			} else {
				m.DialErr = ex
			}
		}
	}
	for _, u := range *m.Connect.Referrers() {
		if ex, ok := u.(*ssa.Extract); ok {
			if ex.Index == 0 {
				m.Session = ex
			} else {
				m.ConnErr = ex
			}
		}
	}
	if m.DialErr != nil {
		m.DialOK = nilEdges(f, m.DialErr)
	}
	if m.ConnErr != nil {
		m.ConnOK = nilEdges(f, m.ConnErr)
	}
	eachInstr(f, func(in ssa.Instruction) {
		sel, ok := in.(*ssa.Select)
		if !ok || !sel.Blocking {
			return
		}
		for _, s := range sel.States {
			if s.Dir != types.RecvOnly {
				continue
			}
			if m.After != nil && c.Resolve(s.Chan) == ssa.Value(m.After) {
				m.WaitSel = sel
			}
			if m.Cli != nil && c.isClosedChanOf(s.Chan, m.Cli) {
				m.ConnSel = sel
			}
		}
	})
	return m, ""
}

// ---- R-C01-8 -----------------------------------------------------------------------------------------

func (c *Ctx) ruleReconnectResumes(rr *RuleRep) {
	a := c.retryAnchors()
	if a.lost(rr) {
		return
	}
	m, why := c.reconnModel()
	if m == nil {
		rr.Lost("reconnect-loop", "%s", why)
		return
	}
	rr.Floor(4)
	f := m.F
	key := FuncName(f)
	// (a) every successful Connect is followed by Retry before the loop comes round or ends
	if len(m.ConnOK) != 1 || m.Retry == nil {
		rr.Bad(key+"/retry-after-connect", m.Connect.Pos(), "the reconnect loop has no unique success edge of Connect followed by Retry()")
	} else {
		e := m.ConnOK[0]
		first := e.B.Succs[e.K].Instrs[0]
		goal := func(in ssa.Instruction) bool { return realExit(in) || in == ssa.Instruction(m.Dial) }
		rcRetryM := c.Method("RetryClient", "Retry")
		block := func(in ssa.Instruction) bool {
			if in == ssa.Instruction(m.Retry) {
				return true
			}
			// the call written once per branch (`established` with early returns: first connection / session kept / resubscribe)
			k, ok := in.(*ssa.Call)
			return ok && rcRetryM != nil && c.StaticCalleeOf(&k.Call) == rcRetryM && len(k.Call.Args) == len(m.Retry.Call.Args) && c.Resolve(k.Call.Args[0]) == c.Resolve(m.Retry.Call.Args[0])
		}
		if block(first) {
			rr.OK(key+"/retry-after-connect", m.Retry.Pos(), "Retry() follows every successful Connect")
		} else if w, found := CanReach(f, first, goal, PathQ{BlockInstr: block}); found || goal(first) {
			pos := first.Pos()
			if w != nil {
				pos = w.Pos()
			}
			rr.Bad(key+"/retry-after-connect", pos, "a path from a successful Connect reaches the end of the iteration without calling Retry(): requests that failed earlier (or were accepted before the first connection) stay in the retry queue and block everything submitted later")
		} else {
			rr.OK(key+"/retry-after-connect", m.Retry.Pos(), "Retry() is called on every path after a successful Connect (no condition can skip it)")
		}
	}
	// (b) SetClient(dialled client) precedes Connect
	if m.SetClient == nil || len(m.SetClient.Call.Args) != 3 || c.Resolve(m.SetClient.Call.Args[2]) != m.Cli {
		rr.Bad(key+"/setclient", m.Connect.Pos(), "the dialled client is not installed with SetClient before Connect")
	} else if !Dominated(f, m.Connect, func(in ssa.Instruction) bool { return in == ssa.Instruction(m.SetClient) }, PathQ{}) {
		rr.Bad(key+"/setclient", m.Connect.Pos(), "Connect can run without SetClient having installed the dialled client")
	} else {
		rr.OK(key+"/setclient", m.SetClient.Pos(), "SetClient(dialled client) dominates RetryClient.Connect")
	}
	// (c) task goroutine: tasks run only when connected; connected := true only when chConnectErr closed without a value
	g := c.taskGoroutine(a)
	if g == nil {
		rr.Lost("task-goroutine", "not found")
		return
	}
	var taskCall *ssa.Call
	eachInstr(g, func(in ssa.Instruction) {
		k, ok := in.(*ssa.Call)
		if !ok || k.Call.IsInvoke() || k.Call.StaticCallee() != nil {
			return
		}
		ld, ok := c.ResolveAt(k.Call.Value, in).(*ssa.UnOp)
		if !ok {
			return
		}
		if ia, ok := ld.X.(*ssa.IndexAddr); ok {
			if _, isTQ := isLoadOfField(ia.X, a.TaskQueue); isTQ {
				taskCall = k
			}
		}
	})
	gk := FuncName(g)
	if taskCall == nil {
		rr.Lost(gk+"/task-call", "task invocation not found in the task goroutine")
		return
	}
	// connected flag: phi guarding the task call
	var conn *ssa.Phi
	for _, b := range g.Blocks {
		iff := blockIf(b)
		if iff == nil {
			continue
		}
		if phi, ok := iff.Cond.(*ssa.Phi); ok && DominatedByEdge(g, taskCall, b, 0, PathQ{}) {
			conn = phi
		}
	}
	// path formulation (used when the guard is not the reference tree's `if !connected { wait…; continue }`): from the
	// goroutine's entry, and from every point at which the connection is known to be lost — the client was replaced
	// (receive from chConnSwitch) or closed for a retry — no path reaches the task call without passing the edge on which the
	// connect result channel was found closed without an error value
	pathGuard := func() bool {
		okEdge := map[ifEdge]bool{}
		for _, bb := range g.Blocks {
			iff := blockIf(bb)
			if iff == nil {
				continue
			}
			ex, ok := iff.Cond.(*ssa.Extract)
			if !ok || ex.Index != 1 {
				continue
			}
			sel, ok := ex.Tuple.(*ssa.Select)
			if !ok {
				continue
			}
			for _, s := range sel.States {
				if _, ok := isLoadOfField(c.Resolve(s.Chan), a.ChConnErr); ok && s.Dir == types.RecvOnly {
					okEdge[ifEdge{bb, 1}] = true
				}
			}
		}
		if len(okEdge) == 0 {
			return false
		}
		q := PathQ{BlockEdge: func(b *ssa.BasicBlock, k int) bool { return okEdge[ifEdge{b, k}] }}
		isTask := func(in ssa.Instruction) bool { return in == ssa.Instruction(taskCall) }
		if _, reach := CanReach(g, nil, isTask, q); reach {
			return false
		}
		lost := 0
		bad := false
		eachInstr(g, func(in ssa.Instruction) {
			switch x := in.(type) {
			case *ssa.Select:
				for _, cs := range selectCases(x) {
					if cs.State == nil || !cs.HasEdge || cs.State.Dir != types.RecvOnly {
						continue
					}
					if _, isSw := isFieldLoad(c.Resolve(cs.State.Chan), "RetryClient", aliasField("RetryClient", "chConnSwitch")); !isSw {
						continue
					}
					lost++
					first := cs.Edge.B.Succs[cs.Edge.K].Instrs[0]
					if isTask(first) {
						bad = true
					} else if _, reach := CanReach(g, first, isTask, q); reach {
						bad = true
					}
				}
			case *ssa.Call:
				if callee := c.StaticCalleeOf(&x.Call); callee != nil && callee == c.Method("BaseClient", "Close") {
					lost++
					if _, reach := CanReach(g, in, isTask, q); reach {
						bad = true
					}
				}
			}
		})
		return !bad && lost > 0
	}
	if conn == nil {
		if pathGuard() {
			rr.OK(gk+"/connected", taskCall.Pos(), "no path from the goroutine's entry, from a replaced client or from a client closed for a retry reaches the task call without a connect result channel closed without an error value")
		} else {
			rr.Bad(gk+"/connected", taskCall.Pos(), "tasks are executed without a `connected` guard: requests are issued on a client whose Connect has not succeeded")
		}
	} else {
		okAll := true
		nTrue := 0
		for i, e := range conn.Edges {
			b, isK := constBool(e)
			if !isK {
				if e != ssa.Value(conn) {
					okAll = false
				}
				continue
			}
			if !b {
				continue
			}
			nTrue++
			pred := conn.Block().Preds[i]
			// pred must be dominated by: select recv from chConnectErr, recvOk false
			good := false
			for _, bb := range g.Blocks {
				iff := blockIf(bb)
				if iff == nil {
					continue
				}
				ex, ok := iff.Cond.(*ssa.Extract)
				if !ok || ex.Index != 1 {
					continue
				}
				sel, ok := ex.Tuple.(*ssa.Select)
				if !ok {
					continue
				}
				isCE := false
				for _, s := range sel.States {
					if _, ok := isLoadOfField(c.Resolve(s.Chan), a.ChConnErr); ok && s.Dir == types.RecvOnly {
						isCE = true
					}
				}
				if isCE && len(pred.Instrs) > 0 && DominatedByEdge(g, pred.Instrs[0], bb, 1, PathQ{}) {
					good = true
				}
			}
			if !good {
				okAll = false
			}
		}
		if okAll && nTrue > 0 {
			rr.OK(gk+"/connected", taskCall.Pos(), "tasks run only while `connected`; it becomes true only when chConnectErr is closed without an error value")
		} else if pathGuard() {
			rr.OK(gk+"/connected", taskCall.Pos(), "no path from the goroutine's entry, from a replaced client or from a client closed for a retry reaches the task call without a connect result channel closed without an error value")
		} else {
			rr.Bad(gk+"/connected", taskCall.Pos(), "`connected` can become true without a successful Connect (a failed Connect's error value, or nothing at all, is taken for success): tasks are then executed against an unconnected client and their requests fail or are dropped")
		}
	}
	// (d) after each task: if the retry flag is set, close the client
	var flagIf *ssa.If
	for _, b := range g.Blocks {
		iff := blockIf(b)
		if iff == nil {
			continue
		}
		if _, ok := isLoadOfField(iff.Cond, a.NewRetry); ok {
			flagIf = iff
		}
	}
	closeM := c.Method("BaseClient", "Close")
	okClose := false
	if flagIf != nil {
		eachInstr(g, func(in ssa.Instruction) {
			k, ok := in.(*ssa.Call)
			if !ok || c.StaticCalleeOf(&k.Call) != closeM || closeM == nil {
				return
			}
			if c.Same(k.Call.Args[0], taskCall.Call.Args[1]) && DominatedByEdge(g, in, flagIf.Block(), 0, PathQ{}) {
				okClose = true
			}
		})
	}
	if flagIf == nil || !okClose {
		rr.Bad(gk+"/recycle", taskCall.Pos(), "the task goroutine does not close the client after a task set the retry flag: nothing makes the reconnect loop come round, the retry queue is never resumed")
	} else {
		block := func(in ssa.Instruction) bool { return in == ssa.Instruction(flagIf) }
		goal := func(in ssa.Instruction) bool { return realExit(in) || in == ssa.Instruction(taskCall) }
		if _, found := CanReach(g, taskCall, goal, PathQ{BlockInstr: block}); found {
			rr.Bad(gk+"/recycle", flagIf.Pos(), "a path from a task to the next one skips the retry-flag test")
		} else {
			rr.OK(gk+"/recycle", flagIf.Pos(), "after every task the retry flag is tested and the task's client is closed when it is set")
		}
	}
	// (e) RetryClient.Connect: closes the chConnectErr it read under mu on every path after cli.Connect, sending the error first iff it failed
	rc := c.Method("RetryClient", "Connect")
	if rc == nil {
		rr.Lost("(*RetryClient).Connect", "not found")
		return
	}
	baseConn := c.Method("BaseClient", "Connect")
	var cliConn *ssa.Call
	eachInstr(rc, func(in ssa.Instruction) {
		if k, ok := in.(*ssa.Call); ok && c.StaticCalleeOf(&k.Call) == baseConn && baseConn != nil {
			cliConn = k
		}
	})
	if cliConn == nil {
		rr.Bad("(*RetryClient).Connect/connect", rc.Pos(), "RetryClient.Connect does not call BaseClient.Connect")
		return
	}
	isCloseCE := func(in ssa.Instruction) bool {
		k, ok := in.(*ssa.Call)
		if !ok {
			return false
		}
		b, ok := k.Call.Value.(*ssa.Builtin)
		if !ok || b.Name() != "close" {
			return false
		}
		_, isCE := isLoadOfField(c.Resolve(k.Call.Args[0]), a.ChConnErr)
		return isCE
	}
	if w, ok := c.mustFollowFrom(rc, cliConn, isCloseCE, nil); !ok {
		rr.Bad("(*RetryClient).Connect/close", w.Pos(), "RetryClient.Connect can return without closing the connect-result channel: the task goroutine never learns that the connection is up and no queued request is ever sent")
	} else {
		rr.OK("(*RetryClient).Connect/close", cliConn.Pos(), "chConnectErr is closed on every path after BaseClient.Connect returned")
	}
	// send of error iff failed: on the err != nil edge a Send on chConnectErr precedes the close; on the nil edge no send
	var cerr ssa.Value
	for _, u := range *cliConn.Referrers() {
		if ex, ok := u.(*ssa.Extract); ok && ex.Index == 1 {
			cerr = ex
		}
	}
	isSendCE := func(in ssa.Instruction) bool {
		s, ok := in.(*ssa.Send)
		if !ok {
			return false
		}
		_, isCE := isLoadOfField(c.Resolve(s.Chan), a.ChConnErr)
		return isCE
	}
	okSend := cerr != nil
	if cerr != nil {
		fe := nonNilEdgesRaw(rc, cerr)
		if len(fe) == 0 {
			okSend = false
		} else {
			isFail := func(b *ssa.BasicBlock, k int) bool {
				for _, e := range fe {
					if e.B == b && e.K == k {
						return true
					}
				}
				return false
			}
			isOK := func(b *ssa.BasicBlock, k int) bool {
				for _, e := range fe {
					if e.B == b && 1-e.K == k {
						return true
					}
				}
				return false
			}
			// failed (every test of the error takes its non-nil edge): no close without the send before it
			if _, found := CanReach(rc, cliConn, isCloseCE, PathQ{BlockInstr: isSendCE, BlockEdge: isOK}); found {
				okSend = false
			}
			// succeeded (every test takes its nil edge): no send
			if _, found := CanReach(rc, cliConn, isSendCE, PathQ{BlockEdge: isFail}); found {
				okSend = false
			}
		}
	}
	if okSend {
		rr.OK("(*RetryClient).Connect/result", cliConn.Pos(), "a failed Connect sends its error before closing the channel; a successful one closes it empty")
	} else {
		rr.Bad("(*RetryClient).Connect/result", cliConn.Pos(), "the connect result handed to the task goroutine does not distinguish failure (error value, then close) from success (close only)")
	}
}

var _ = token.ADD

// loopCtxCell: the variable holding the loop's context — the one DialContext is called with: its cell when the variable is
// captured/reassigned, and the value it is initialised with (the goroutine's parameter, or a copy of the caller's context).
func (c *Ctx) loopCtxCell(m *reconnModel) (*ssa.Alloc, ssa.Value) {
	if m.Dial == nil {
		return nil, nil
	}
	var arg ssa.Value
	for _, a := range m.Dial.Call.Args {
		if types.TypeString(a.Type(), nil) == "context.Context" {
			arg = a
		}
	}
	if arg == nil {
		return nil, nil
	}
	if u, ok := arg.(*ssa.UnOp); ok && u.Op == token.MUL {
		if cell, ok := c.addrRoot(u.X).(*ssa.Alloc); ok {
			return cell, nil
		}
	}
	return nil, c.Resolve(arg)
}

// isLoopCtx: v denotes the loop's context at some point of the loop.
func (c *Ctx) isLoopCtx(m *reconnModel, v ssa.Value) bool {
	cell, val := c.loopCtxCell(m)
	if cell != nil {
		if u, ok := v.(*ssa.UnOp); ok && u.Op == token.MUL {
			if c2, ok := c.addrRoot(u.X).(*ssa.Alloc); ok && c2 == cell {
				return true
			}
		}
		// a value the cell is initialised with
		for _, st := range c.cellStores[cell] {
			if st.Val == v || c.Resolve(st.Val) == c.Resolve(v) {
				if call, _ := c.asCall(st.Val); call == nil {
					return true
				}
			}
		}
		return false
	}
	if val != nil && c.Resolve(v) == val {
		return true
	}
	if set := c.loopCtxValues(m); set != nil {
		if set[v] || set[c.Resolve(v)] {
			return true
		}
		if u, ok := v.(*ssa.UnOp); ok && u.Op == token.MUL && set[u.X] {
			return true
		}
	}
	return false
}

// loopCtxValues: when the loop's context is not a captured variable but a value carried round the loop (`ctx = …` in
// the loop body makes it a join at the loop header), the joins and the parameter that denote it at the various points of
// the loop: everything connected to the context DialContext is called with through joins.
func (c *Ctx) loopCtxValues(m *reconnModel) map[ssa.Value]bool {
	if m.Dial == nil {
		return nil
	}
	var arg ssa.Value
	for _, a := range m.Dial.Call.Args {
		if types.TypeString(a.Type(), nil) == "context.Context" {
			arg = a
		}
	}
	if arg == nil {
		return nil
	}
	if _, isPhi := arg.(*ssa.Phi); !isPhi {
		return nil
	}
	set := map[ssa.Value]bool{arg: true}
	for changed := true; changed; {
		changed = false
		eachInstr(m.F, func(in ssa.Instruction) {
			phi, ok := in.(*ssa.Phi)
			if !ok || types.TypeString(phi.Type(), nil) != "context.Context" {
				return
			}
			member := set[phi]
			for _, e := range phi.Edges {
				if set[e] {
					member = true
				}
			}
			if !member {
				return
			}
			if !set[phi] {
				set[phi] = true
				changed = true
			}
			for _, e := range phi.Edges {
				switch x := e.(type) {
				case *ssa.Phi, *ssa.Parameter:
					if !set[e] {
						set[e] = true
						changed = true
					}
				case *ssa.UnOp:
					// the loop context passed through a helper that was inlined: a local initialised with it, possibly rebound to
					// context.Background() (in the once-only block), and read back
					cell, isCell := x.X.(*ssa.Alloc)
					if x.Op != token.MUL || !isCell || set[cell] {
						continue
					}
					ok := len(c.cellStores[cell]) > 0
					for _, st := range c.cellStores[cell] {
						if set[st.Val] || set[c.Resolve(st.Val)] {
							continue
						}
						if call, _ := c.asCall(st.Val); call != nil && isStdCall(&call.Call, "context", "Background") {
							continue
						}
						ok = false
					}
					if ok {
						set[cell] = true
						set[e] = true
						changed = true
					}
				}
			}
		})
	}
	return set
}

// ruleLoopOutlivesConnectCtx: once the first connection is established the reconnect loop must stop depending on the context
// its caller passed to Connect (callers cancel or let expire that context as soon as Connect has returned): the context the
// loop dials with is a variable that the once-only first-success block rebinds to context.Background(). Without the
// rebinding the first connection loss after the caller's context has ended stops the loop for good.
func (c *Ctx) ruleLoopOutlivesConnectCtx(rr *RuleRep) {
	m, why := c.reconnModel()
	if m == nil {
		rr.Lost("reconnect-loop", "%s", why)
		return
	}
	key := FuncName(m.F) + "/outlives-connect-ctx"
	cell, _ := c.loopCtxCell(m)
	if set := c.loopCtxValues(m); cell == nil && set != nil {
		// the context carried round the loop as a value: some join takes context.Background() over an edge that lies behind
		// a successful Connect, and no join takes anything else that is new
		var rebound ssa.Instruction
		for v := range set {
			if cell, isCell := v.(*ssa.Alloc); isCell {
				// a member variable rebound to context.Background(), directly or in a once-only block, behind a successful Connect
				for _, st := range c.cellStores[cell] {
					call, _ := c.asCall(st.Val)
					if call == nil || !isStdCall(&call.Call, "context", "Background") {
						continue
					}
					at := ssa.Instruction(st)
					if st.Parent() != m.F {
						// inside a closure: where that closure is handed to sync.Once.Do in the loop
						at = nil
						for _, mc := range c.makeClosures[st.Parent()] {
							for _, uu := range *mc.Referrers() {
								if k, ok := uu.(*ssa.Call); ok && isStdCall(&k.Call, "sync", "Do") && k.Parent() == m.F {
									at = k
								}
							}
						}
					}
					if at == nil {
						continue
					}
					for _, ok := range m.ConnOK {
						if DominatedByEdge(m.F, at, ok.B, ok.K, PathQ{}) {
							rebound = at
						}
					}
				}
				continue
			}
			phi, ok := v.(*ssa.Phi)
			if !ok {
				continue
			}
			for i, e := range phi.Edges {
				if set[e] || i >= len(phi.Block().Preds) {
					continue
				}
				call, _ := c.asCall(e)
				pred := phi.Block().Preds[i]
				if call == nil || !isStdCall(&call.Call, "context", "Background") || len(pred.Instrs) == 0 {
					rr.Bad(key, phi.Pos(), "the context the reconnect loop runs under is replaced by something other than context.Background()")
					return
				}
				last := pred.Instrs[len(pred.Instrs)-1]
				for _, ok := range m.ConnOK {
					if DominatedByEdge(m.F, last, ok.B, ok.K, PathQ{}) {
						rebound = call
					}
				}
			}
		}
		if rebound != nil {
			rr.OK(key, rebound.Pos(), "the context carried round the loop becomes context.Background() behind a successful Connect")
			return
		}
		rr.Bad(key, m.Dial.Pos(), "the context the reconnect loop dials with is never rebound to context.Background() after the first success: once the context passed to Connect has ended, the next connection loss stops the loop and accepted requests are never carried out")
		return
	}
	if cell == nil {
		rr.Bad(key, m.Dial.Pos(), "the reconnect loop dials with a context that is never replaced: after the first connection it still depends on the context passed to Connect, and stops redialling once that context has ended")
		return
	}
	for _, st := range c.cellStores[cell] {
		call, _ := c.asCall(st.Val)
		if call == nil || !isStdCall(&call.Call, "context", "Background") {
			continue
		}
		inOnce := false
		for _, mc := range c.makeClosures[st.Parent()] {
			for _, uu := range *mc.Referrers() {
				if k, ok := uu.(*ssa.Call); ok && isStdCall(&k.Call, "sync", "Do") {
					inOnce = true
				}
			}
		}
		if inOnce {
			// the rebinding must reach the dial: the variable is read again on the way round the loop, not copied once before it
			var doCall ssa.Instruction
			for _, mc := range c.makeClosures[st.Parent()] {
				for _, uu := range *mc.Referrers() {
					if k, ok := uu.(*ssa.Call); ok && isStdCall(&k.Call, "sync", "Do") && k.Parent() == m.F {
						doCall = k
					}
				}
			}
			var dialLoad ssa.Instruction
			for _, a := range m.Dial.Call.Args {
				if u, ok := a.(*ssa.UnOp); ok && u.Op == token.MUL {
					if c2, ok := c.addrRoot(u.X).(*ssa.Alloc); ok && c2 == cell {
						dialLoad = u
					}
				}
			}
			if doCall != nil && dialLoad != nil {
				if _, again := CanReach(m.F, doCall, func(x ssa.Instruction) bool { return x == dialLoad }, PathQ{}); !again {
					rr.Bad(key, m.Dial.Pos(), "the reconnect loop dials with a copy of its context taken before the loop: rebinding the variable to context.Background() at the first success never reaches the dial, so the loop stays tied to the context passed to Connect")
					return
				}
			}
			rr.OK(key, st.Pos(), "the context the loop dials with is rebound to context.Background() in the once-only first-success block")
			return
		}
	}
	rr.Bad(key, m.Dial.Pos(), "the context the reconnect loop dials with is never rebound to context.Background() after the first success: once the context passed to Connect has ended, the next connection loss stops the loop and accepted requests are never carried out")
}
