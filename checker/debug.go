package main

import (
	"fmt"
	"os"
	"strings"

	"golang.org/x/tools/go/ssa"
)

// debugChains prints the byte-sequence decomposition of every Pack method (developer aid: mqttcheck -property DUMP).
func init() {
	register("DUMP", "developer aid", func(r *Run) {
		c := r.C
		for _, f := range c.Funcs {
			if f.Name() != "Pack" {
				continue
			}
			for _, ret := range returnsOf(f) {
				call, callee := c.asCall(ret.Results[0])
				if call == nil || callee == nil || callee.Name() != "pack" {
					continue
				}
				cc := c.newChain()
				hb, its, ok := cc.decomposeOr(call.Call.Args[0])
				fmt.Printf("%s: header base=0x%02X ok=%v %v %s\n", FuncName(f), hb, ok, its, cc.err)
				if sl, ok := call.Call.Args[1].(*ssa.Slice); ok {
					if al, ok := sl.X.(*ssa.Alloc); ok {
						for i, e := range arrayElems(al) {
							its := cc.decompose(e)
							fmt.Printf("   part %d: %s\n", i, itemsString(its))
							for _, it := range its {
								if it.Kind == "byte" {
									if _, isK := constInt(it.Val); !isK {
										b, o, ok := cc.decomposeOr(it.Val)
										fmt.Printf("      byte %s: base=%x ok=%v %v %s\n", it.Val.Name(), b, ok, o, cc.err)
									}
								}
							}
						}
					}
				}
			}
		}
	})
}

// SIGS: developer aid printing the signature table used by funcalias.go (mqttcheck -property SIGS).
func init() {
	register("SIGS", "developer aid", func(r *Run) {
		for _, f := range r.C.Funcs {
			if f.Parent() != nil {
				continue
			}
			fmt.Printf("SIG %s\t%s\n", FuncName(f), sigString(f))
		}
	})
}

// SSAF: developer aid printing the SSA of the functions whose name contains $MQTTCHECK_FN (after normalisation).
func init() {
	register("SSAF", "developer aid", func(r *Run) {
		want := os.Getenv("MQTTCHECK_FN")
		for _, f := range r.C.Funcs {
			if want != "" && strings.Contains(FuncName(f), want) {
				f.WriteTo(os.Stdout)
			}
		}
	})
}

// INFEAS: developer aid listing the edges the infeasible-edge oracle prunes in functions matching $MQTTCHECK_FN.
func init() {
	register("INFEAS", "developer aid", func(r *Run) {
		want := os.Getenv("MQTTCHECK_FN")
		for _, f := range r.C.Funcs {
			if want != "" && !strings.Contains(FuncName(f), want) {
				continue
			}
			for _, b := range f.Blocks {
				if k, ok := infeasibleEdges[b]; ok {
					fmt.Printf("INFEAS %s block %d edge %d\n", FuncName(f), b.Index, k-1)
				}
			}
		}
		for _, m := range r.C.Pkg.Members {
			if g, ok := m.(*ssa.Global); ok && strings.HasPrefix(g.Name(), "Err") {
				fmt.Printf("SENTINEL %s nonnil=%v\n", g.Name(), r.C.sentinelNonNil(g))
			}
		}
	})
}
