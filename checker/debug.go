package main

import (
	"fmt"
	"os"
	"sort"
	"strings"

	"golang.org/x/tools/go/ssa"
)

// debugChains prints the byte-sequence decomposition of every Pack method (developer aid: mqttcheck -property DUMP).
func init() {
	register("DUMP", "developer aid", func(r *Run) {
		c := r.C
		for _, f := range c.Funcs {
			if f.Name() != "Pack" {
				continue
			}
			for _, ret := range returnsOf(f) {
				call, callee := c.asCall(ret.Results[0])
				if call == nil || callee == nil || callee.Name() != "pack" {
					continue
				}
				cc := c.newChain()
				hb, its, ok := cc.decomposeOr(call.Call.Args[0])
				fmt.Printf("%s: header base=0x%02X ok=%v %v %s\n", FuncName(f), hb, ok, its, cc.err)
				if sl, ok := call.Call.Args[1].(*ssa.Slice); ok {
					if al, ok := sl.X.(*ssa.Alloc); ok {
						for i, e := range arrayElems(al) {
							its := cc.decompose(e)
							fmt.Printf("   part %d: %s\n", i, itemsString(its))
							for _, it := range its {
								if it.Kind == "byte" {
									if _, isK := constInt(it.Val); !isK {
										b, o, ok := cc.decomposeOr(it.Val)
										fmt.Printf("      byte %s: base=%x ok=%v %v %s\n", it.Val.Name(), b, ok, o, cc.err)
									}
								}
							}
						}
					}
				}
			}
		}
	})
}

// SIGS: developer aid printing the signature table used by funcalias.go (mqttcheck -property SIGS).
func init() {
	register("SIGS", "developer aid", func(r *Run) {
		for _, f := range r.C.Funcs {
			if f.Parent() != nil {
				continue
			}
			fmt.Printf("SIG %s\t%s\n", FuncName(f), sigString(f))
		}
	})
}

// CALLERS: developer aid printing, per package function, the top-level functions that mention it (call it or take its
// value) — the table headCallers of headfuncs.go (mqttcheck -property CALLERS).
func init() {
	register("CALLERS", "developer aid", func(r *Run) {
		key := func(f *ssa.Function) string {
			k := f.Name()
			if recv := f.Signature.Recv(); recv != nil {
				k = typeName(recv.Type()) + "." + k
			}
			return k
		}
		users := map[string]map[string]bool{}
		for _, f := range r.C.Funcs {
			top := enclosingTop(f)
			eachInstr(f, func(in ssa.Instruction) {
				var ops []*ssa.Value
				for _, op := range in.Operands(ops) {
					if op == nil || *op == nil {
						continue
					}
					g, ok := (*op).(*ssa.Function)
					if !ok || g.Pkg != r.C.Pkg || g.Parent() != nil || g.Synthetic != "" {
						continue
					}
					if users[key(g)] == nil {
						users[key(g)] = map[string]bool{}
					}
					users[key(g)][key(top)] = true
				}
			})
		}
		var ks []string
		for k := range users {
			ks = append(ks, k)
		}
		sort.Strings(ks)
		for _, k := range ks {
			var us []string
			for u := range users[k] {
				us = append(us, u)
			}
			sort.Strings(us)
			fmt.Printf("CALLERS\t%q: {%s},\n", k, `"`+strings.Join(us, `", "`)+`"`)
		}
	})
}

// SSAF: developer aid printing the SSA of the functions whose name contains $MQTTCHECK_FN (after normalisation).
func init() {
	register("SSAF", "developer aid", func(r *Run) {
		want := os.Getenv("MQTTCHECK_FN")
		for _, f := range r.C.Funcs {
			if want != "" && strings.Contains(FuncName(f), want) {
				f.WriteTo(os.Stdout)
			}
		}
	})
}

// INFEAS: developer aid listing the edges the infeasible-edge oracle prunes in functions matching $MQTTCHECK_FN.
func init() {
	register("INFEAS", "developer aid", func(r *Run) {
		want := os.Getenv("MQTTCHECK_FN")
		for _, f := range r.C.Funcs {
			if want != "" && !strings.Contains(FuncName(f), want) {
				continue
			}
			for _, b := range f.Blocks {
				if k, ok := infeasibleEdges[b]; ok {
					fmt.Printf("INFEAS %s block %d edge %d\n", FuncName(f), b.Index, k-1)
				}
			}
		}
		for _, m := range r.C.Pkg.Members {
			if g, ok := m.(*ssa.Global); ok && strings.HasPrefix(g.Name(), "Err") {
				fmt.Printf("SENTINEL %s nonnil=%v\n", g.Name(), r.C.sentinelNonNil(g))
			}
		}
	})
}
