package main

import (
	"go/types"

	"golang.org/x/tools/go/ssa"
)

// boundClosure: a closure func(ctx, cli) error that derives a context from its own ctx with requestContext, invokes a
// captured retry handle with that context and its own cli, and returns the handle's result on every path — the closure
// (*RetryClient).withRequestContext returns on the reference tree, wherever it is written.
type boundClosure struct {
	Fn     *ssa.Function
	ReqCtx *ssa.Call
	Invoke *ssa.Call
	Free   *ssa.FreeVar // the captured handle (nil if the callee value is not a plain captured variable)
	ViaErr bool         // what is captured is the error itself and the closure invokes its Retry method
}

func (c *Ctx) boundingClosure(a *retryAnchors, fn *ssa.Function) *boundClosure {
	if fn == nil || fn.Parent() == nil || a == nil || a.ReqCtx == nil || fn.Blocks == nil {
		return nil
	}
	if bc, ok := c.boundCache[fn]; ok {
		return bc
	}
	if c.boundCache == nil {
		c.boundCache = map[*ssa.Function]*boundClosure{}
	}
	c.boundCache[fn] = nil
	sig := fn.Signature
	if sig.Params().Len() != 2 || sig.Results().Len() != 1 || sig.Params().At(0).Type().String() != "context.Context" || typeName(sig.Params().At(1).Type()) != "BaseClient" {
		return nil
	}
	var rc, inv *ssa.Call
	n, m := 0, 0
	eachInstr(fn, func(in ssa.Instruction) {
		k, ok := in.(*ssa.Call)
		if !ok {
			return
		}
		callee := c.StaticCalleeOf(&k.Call)
		switch {
		case callee == a.ReqCtx:
			rc = k
			n++
		case k.Call.StaticCallee() == nil && !k.Call.IsInvoke() && len(k.Call.Args) == 2:
			if _, isB := k.Call.Value.(*ssa.Builtin); !isB {
				inv = k
				m++
			}
		case k.Call.IsInvoke() && k.Call.Method.Name() == "Retry" && len(k.Call.Args) == 2:
			// the captured value is the error; its Retry method is the handle
			inv = k
			m++
		}
	})
	if n != 1 || m != 1 {
		return nil
	}
	// requestContext(own ctx); handle(ctx2, own cli)
	own := false
	for _, arg := range rc.Call.Args {
		if c.Resolve(arg) == ssa.Value(fn.Params[0]) {
			own = true
		}
	}
	ex, isEx := c.Resolve(inv.Call.Args[0]).(*ssa.Extract)
	if !own || !isEx || ex.Index != 0 || ex.Tuple != ssa.Value(rc) || c.Resolve(inv.Call.Args[1]) != ssa.Value(fn.Params[1]) {
		return nil
	}
	for _, ret := range returnsOf(fn) {
		if c.Resolve(c.errResult(ret)) != ssa.Value(inv) {
			return nil
		}
	}
	bc := &boundClosure{Fn: fn, ReqCtx: rc, Invoke: inv, ViaErr: inv.Call.IsInvoke()}
	v := inv.Call.Value
	for i := 0; i < 4; i++ {
		switch x := v.(type) {
		case *ssa.FreeVar:
			bc.Free = x
		case *ssa.UnOp:
			v = x.X
			continue
		case *ssa.ChangeType:
			v = x.X
			continue
		}
		break
	}
	c.boundCache[fn] = bc
	return bc
}

// boundHandle: the handle a bounding closure value (a MakeClosure of a boundClosure function) was given.
func (c *Ctx) boundHandle(bc *boundClosure, mc *ssa.MakeClosure) ssa.Value {
	if bc == nil || mc == nil || bc.Free == nil {
		return nil
	}
	for i, fv := range bc.Fn.FreeVars {
		if fv != bc.Free || i >= len(mc.Bindings) {
			continue
		}
		b := mc.Bindings[i]
		if al, ok := b.(*ssa.Alloc); ok {
			// a captured variable: the value it was given
			if sts := c.cellStores[al]; len(sts) == 1 {
				return sts[0].Val
			}
			return nil
		}
		if _, isPtr := b.Type().Underlying().(*types.Pointer); isPtr {
			return nil
		}
		return b
	}
	return nil
}

// boundingClosures: every bounding closure of the package.
func (c *Ctx) boundingClosures(a *retryAnchors) []*boundClosure {
	var out []*boundClosure
	for _, f := range c.Funcs {
		if bc := c.boundingClosure(a, f); bc != nil {
			out = append(out, bc)
		}
	}
	return out
}
