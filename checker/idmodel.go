package main

// idModel: every way the packet-identifier counter (BaseClient.idLast) is touched. The counter's address is followed through
// pointer conversions and into package functions that receive it (a counter type with methods is the same counter), so
// that "only through sync/atomic" and "advanced in one place" are decided for the field, not for one spelling of it.

import (
	"go/types"

	"golang.org/x/tools/go/ssa"
)

type idAccess struct {
	In   ssa.Instruction
	Fn   *ssa.Function
	Kind string // add, store, load, other-atomic, plain, escape
	Call *ssa.Call
}

type idModel struct {
	Field    *types.Var
	Accesses []idAccess
	addrs    map[ssa.Value]bool
}

var idModelCache = map[*Ctx]*idModel{}

func (c *Ctx) idModel() *idModel {
	if m, ok := idModelCache[c]; ok {
		return m
	}
	m := &idModel{Field: c.structField("BaseClient", "idLast"), addrs: map[ssa.Value]bool{}}
	idModelCache[c] = m
	if m.Field == nil {
		return m
	}
	var work []ssa.Value
	add := func(v ssa.Value) {
		if v != nil && !m.addrs[v] {
			m.addrs[v] = true
			work = append(work, v)
		}
	}
	for _, f := range c.Funcs {
		eachInstr(f, func(in ssa.Instruction) {
			if fa, ok := in.(*ssa.FieldAddr); ok {
				if _, fld := fieldOf(fa); fld == m.Field {
					add(fa)
				}
			}
		})
	}
	for len(work) > 0 {
		v := work[len(work)-1]
		work = work[:len(work)-1]
		refs := v.Referrers()
		if refs == nil {
			continue
		}
		for _, u := range *refs {
			switch x := u.(type) {
			case *ssa.ChangeType:
				add(x)
			case *ssa.Convert:
				add(x)
			case *ssa.DebugRef:
			case *ssa.Call:
				callee := x.Call.StaticCallee()
				switch {
				case callee != nil && callee.Pkg != nil && callee.Pkg.Pkg.Path() == "sync/atomic":
					kind := "other-atomic"
					switch callee.Name() {
					case "AddUint32":
						kind = "add"
					case "StoreUint32":
						kind = "store"
					case "LoadUint32":
						kind = "load"
					}
					if len(x.Call.Args) == 0 || x.Call.Args[0] != v {
						kind = "escape"
					}
					m.Accesses = append(m.Accesses, idAccess{u, u.Parent(), kind, x})
				case callee != nil && callee.Pkg == c.Pkg && callee.Blocks != nil && !x.Call.IsInvoke():
					passed := false
					for i, a := range x.Call.Args {
						if a == v && i < len(callee.Params) {
							add(callee.Params[i])
							passed = true
						}
					}
					if !passed {
						m.Accesses = append(m.Accesses, idAccess{u, u.Parent(), "escape", x})
					}
				default:
					m.Accesses = append(m.Accesses, idAccess{u, u.Parent(), "escape", x})
				}
			default:
				m.Accesses = append(m.Accesses, idAccess{u, u.Parent(), "plain", nil})
			}
		}
	}
	return m
}

// drawFn: the single function that advances the counter, and its AddUint32 call.
func (m *idModel) drawFn() (*ssa.Function, *ssa.Call) {
	var f *ssa.Function
	var k *ssa.Call
	n := 0
	for _, a := range m.Accesses {
		if a.Kind == "add" {
			n++
			f, k = a.Fn, a.Call
		}
	}
	if n != 1 {
		return nil, nil
	}
	return f, k
}

// onlyCalledFrom: every call of g (other than from g itself) is made by root or by a function that is itself only called from root.
func (c *Ctx) onlyCalledFrom(g, root *ssa.Function, depth int) bool {
	if g == root {
		return true
	}
	if depth > 4 {
		return false
	}
	la := c.locks()
	sites := la.callers[g]
	n := 0
	for _, s := range sites {
		p := s.Parent()
		if p == g {
			continue
		}
		n++
		if !c.onlyCalledFrom(p, root, depth+1) {
			return false
		}
	}
	return n > 0
}
