package main

import (
	"go/token"
	"go/types"

	"golang.org/x/tools/go/ssa"
)

// MQTT 3.1.1 control packet types (spec table 2.1), value of the high nibble << 4 -> packet struct.
var specPacketType = map[int64]string{
	0x10: "pktConnect", 0x20: "pktConnAck", 0x30: "pktPublish", 0x40: "pktPubAck", 0x50: "pktPubRec",
	0x60: "pktPubRel", 0x70: "pktPubComp", 0x80: "pktSubscribe", 0x90: "pktSubAck", 0xA0: "pktUnsubscribe",
	0xB0: "pktUnsubAck", 0xC0: "pktPingReq", 0xD0: "pktPingResp", 0xE0: "pktDisconnect",
}

type serveArm struct {
	K     int64
	Entry *ssa.BasicBlock
	From  ifEdge
	Instr map[ssa.Instruction]bool // instructions of the arm (until the next readPacket)
	Parse *ssa.Call                // the Parse call of the arm
	PktT  string
	Pkt   ssa.Value // parsed packet (extract #0)
	PErr  ssa.Value // parse error (extract #1)
}

type serveModel struct {
	F       *ssa.Function
	Read    *ssa.Call
	PT      ssa.Value
	RErr    ssa.Value
	Arms    []*serveArm
	Default *ssa.BasicBlock // block reached when no arm constant matches
	DefEdge ifEdge
}

func (c *Ctx) serveModel() (*serveModel, string) {
	f := c.Method("BaseClient", "serve")
	if f == nil {
		return nil, "(*BaseClient).serve not found"
	}
	m := &serveModel{F: f}
	rp := c.Func("readPacket")
	eachInstr(f, func(in ssa.Instruction) {
		call, ok := in.(*ssa.Call)
		if !ok {
			return
		}
		g := c.StaticCalleeOf(&call.Call)
		if g == nil || g.Pkg != c.Pkg {
			return
		}
		if g == rp {
			m.Read = call
			return
		}
		// by role: the call returning (packetType, byte, []byte, error)
		res := g.Signature.Results()
		if m.Read == nil && res.Len() == 4 && typeName(res.At(0).Type()) == "packetType" && types.TypeString(res.At(3).Type(), nil) == "error" {
			m.Read = call
		}
	})
	if m.Read == nil {
		return nil, "serve does not call readPacket"
	}
	for _, u := range *m.Read.Referrers() {
		if ex, ok := u.(*ssa.Extract); ok {
			switch ex.Index {
			case 0:
				m.PT = ex
			case 3:
				m.RErr = ex
			}
		}
	}
	if m.PT == nil {
		return nil, "packet type result of readPacket unused"
	}
	stop := PathQ{BlockInstr: func(in ssa.Instruction) bool { return in == ssa.Instruction(m.Read) }}
	var lastIf *ssa.If
	for _, b := range f.Blocks {
		iff := blockIf(b)
		if iff == nil {
			continue
		}
		bin, ok := iff.Cond.(*ssa.BinOp)
		if !ok || bin.Op != token.EQL {
			continue
		}
		var k int64
		var isArm bool
		// the switched value: the packet type itself, or its high nibble (pktType >> 4) as an index
		ptShift := func(v ssa.Value) (int64, bool) {
			v = stripConv(v)
			if v == m.PT {
				return 0, true
			}
			if sh, ok := v.(*ssa.BinOp); ok && sh.Op == token.SHR && stripConv(sh.X) == m.PT {
				if s, ok := constInt(sh.Y); ok && s >= 0 && s < 8 {
					return s, true
				}
			}
			return 0, false
		}
		if s, ok := ptShift(bin.X); ok {
			k, isArm = constInt(bin.Y)
			k <<= uint(s)
		} else if s, ok := ptShift(bin.Y); ok {
			k, isArm = constInt(bin.X)
			k <<= uint(s)
		}
		if !isArm {
			continue
		}
		arm := &serveArm{K: k, Entry: b.Succs[0], From: ifEdge{b, 0}}
		arm.Instr = ReachableFromBlock(f, arm.Entry, stop)
		// Parse call
		for in := range arm.Instr {
			if call, ok := in.(*ssa.Call); ok {
				if g := c.StaticCalleeOf(&call.Call); g != nil && g.Name() == "Parse" && g.Signature.Recv() != nil {
					if arm.Parse == nil || call.Pos() < arm.Parse.Pos() {
						arm.Parse = call
						arm.PktT = typeName(g.Signature.Recv().Type())
					}
				}
			}
		}
		if arm.Parse != nil {
			for _, u := range *arm.Parse.Referrers() {
				if ex, ok := u.(*ssa.Extract); ok {
					if ex.Index == 0 {
						arm.Pkt = ex
					} else if ex.Index == 1 {
						arm.PErr = ex
					}
				}
			}
		}
		m.Arms = append(m.Arms, arm)
		if lastIf == nil || dominatesBlock(lastIf.Block(), b) {
			lastIf = iff
		}
	}
	// a dispatch nested in an arm of the outer dispatch (`case A, B, C: return c.serveAck(…)` with its own switch inside): the
	// inner arm for the value that selected the outer arm is the arm; inner arms for other values cannot be reached; the
	// "no arm matched" edge is that of the outer dispatch
	nestedIn := func(a *serveArm) *serveArm {
		for _, o := range m.Arms {
			if o != a && o.Entry != a.Entry && o.Entry.Dominates(a.From.B) {
				return o
			}
		}
		return nil
	}
	var kept []*serveArm
	lastIf = nil
	for _, a := range m.Arms {
		outer := nestedIn(a)
		if outer == nil {
			if iff := blockIf(a.From.B); iff != nil && (lastIf == nil || dominatesBlock(lastIf.Block(), a.From.B)) {
				lastIf = iff
			}
			// replaced by an inner arm of the same value?
			replaced := false
			for _, in := range m.Arms {
				if in != a && in.K == a.K && in.Entry != a.Entry && a.Entry.Dominates(in.From.B) {
					replaced = true
				}
			}
			if !replaced {
				kept = append(kept, a)
			}
			continue
		}
		// inner arm: kept when some outer arm entering the same body has its value
		for _, o := range m.Arms {
			if o != a && o.K == a.K && o.Entry != a.Entry && o.Entry.Dominates(a.From.B) && nestedIn(o) == nil {
				kept = append(kept, a)
				break
			}
		}
	}
	m.Arms = kept
	if lastIf != nil {
		m.Default = lastIf.Block().Succs[1]
		m.DefEdge = ifEdge{lastIf.Block(), 1}
	}
	if len(m.Arms) == 0 {
		return nil, "no dispatch on the packet type found in serve"
	}
	return m, ""
}

func dominatesBlock(a, b *ssa.BasicBlock) bool { return a.Dominates(b) }

func (m *serveModel) arm(pktT string) *serveArm {
	for _, a := range m.Arms {
		if a.PktT == pktT {
			return a
		}
	}
	return nil
}

// ruleServeRouting: R-C07-2 and R-C07-3.
func (c *Ctx) ruleServeRouting(r2, r3 *RuleRep) {
	m, why := c.serveModel()
	if m == nil {
		r2.Lost("serve", "%s", why)
		return
	}
	r2.Floor(7)
	r3.Floor(8)
	ackKinds := []string{"pktConnAck", "pktPubAck", "pktPubRec", "pktPubComp", "pktSubAck", "pktUnsubAck", "pktPingResp"}
	for _, want := range ackKinds {
		key := "serve/" + want
		arm := m.arm(want)
		if arm == nil {
			r2.Bad(key, m.F.Pos(), "serve has no arm that parses %s: that acknowledgement can never complete a request", want)
			continue
		}
		if specPacketType[arm.K] != want {
			r2.Bad(key, arm.Parse.Pos(), "the arm selected by packet type 0x%02X (%s in MQTT 3.1.1) parses %s", arm.K, specPacketType[arm.K], want)
			continue
		}
		// locate the hand-over: a select/send whose sent value is this arm's parsed packet
		var sends []ssa.Instruction
		for in := range arm.Instr {
			switch x := in.(type) {
			case *ssa.Select:
				for _, st := range x.States {
					if st.Dir == types.SendOnly && c.Resolve(st.Send) == arm.Pkt {
						sends = append(sends, in)
					}
				}
			case *ssa.Send:
				if c.Resolve(x.X) == arm.Pkt {
					sends = append(sends, in)
				}
			}
		}
		if len(sends) != 1 {
			r2.Bad(key, arm.Parse.Pos(), "arm hands the parsed %s over %d times (want exactly one hand-over to the waiter)", want, len(sends))
			continue
		}
		var ch ssa.Value
		switch x := sends[0].(type) {
		case *ssa.Select:
			if x.Blocking || len(x.States) != 1 {
				r3.Bad(key+"/send", x.Pos(), "hand-over of %s is not a single-case non-blocking select: the reader goroutine can block for ever on a waiter that has gone away", want)
			} else {
				r3.OK(key+"/send", x.Pos(), "non-blocking hand-over")
			}
			ch = x.States[0].Chan
		case *ssa.Send:
			r3.Bad(key+"/send", x.Pos(), "hand-over of %s is a blocking send: the reader goroutine can block for ever on a waiter that has gone away", want)
			ch = x.Chan
		}
		// channel = result of a signaller look-up keyed by this packet's ID, or (for the unkeyed CONNACK / PINGRESP waiters)
		// a channel field of this client's signaller read directly
		rv := c.Resolve(ch)
		if _, isPhi := rv.(*ssa.Phi); isPhi {
			// `var ch; var ok; if table != nil { ch, ok = table[id] }; if ok { send }`: the channel on the paths that reach the send
			if vals, reached := valuesAt(m.F, sends[0], rv); reached && len(vals) == 1 {
				rv = c.Resolve(vals[0])
			}
		}
		if ex, ok := rv.(*ssa.Extract); ok {
			rv = ex.Tuple
		}
		ownSig := func(v ssa.Value) bool {
			u, ok := c.Resolve(v).(*ssa.UnOp)
			if !ok {
				return false
			}
			b, ok := isFieldAddr(u.X, "BaseClient", "sig")
			return ok && c.Resolve(b) == ssa.Value(m.F.Params[0])
		}
		if ld, ok := rv.(*ssa.UnOp); ok && ld.Op == token.MUL {
			if fa, ok := ld.X.(*ssa.FieldAddr); ok && inSignaller(fa) {
				if _, isChan := ld.Type().Underlying().(*types.Chan); isChan && func() bool { sb, _ := signallerBase(fa); return sb != nil && ownSig(sb) }() && arm.Instr[ld] && ld.Type().Underlying().(*types.Chan).Elem().String() == arm.Pkt.Type().String() {
					r2.OK(key, ld.Pos(), "0x%02X -> %s.Parse -> this client's signaller channel for %s (read per packet) -> non-blocking send of the parsed packet", arm.K, want, want)
					continue
				}
			}
		}
		if lk, ok := rv.(*ssa.Lookup); ok {
			// the look-up written out in the arm: ch, ok := sig.table[key]; delete(sig.table, key)
			c.ruleInlineLookup(r2, r3, m, arm, want, key, lk, ownSig)
			continue
		}
		call, ok := rv.(*ssa.Call)
		callee := (*ssa.Function)(nil)
		if ok {
			callee = c.StaticCalleeOf(&call.Call)
		}
		if callee == nil || callee.Signature.Recv() == nil || typeName(callee.Signature.Recv().Type()) != "signaller" {
			r2.Bad(key, sends[0].Pos(), "the channel the %s is handed to does not come from a signaller look-up", want)
			continue
		}
		if !arm.Instr[call] {
			r2.Bad(key, call.Pos(), "the waiter look-up is not performed per packet (outside the arm)")
			continue
		}
		// receiver: signaller of this client
		if !ownSig(call.Call.Args[0]) {
			r2.Bad(key, call.Pos(), "look-up is not made in this client's signaller")
			continue
		}
		if len(call.Call.Args) == 2 {
			b, ok := isFieldLoad(c.Resolve(call.Call.Args[1]), want, "ID")
			if !ok || c.Resolve(b) != arm.Pkt {
				r2.Bad(key, call.Pos(), "look-up key is not the identifier of the %s parsed in this arm", want)
				continue
			}
			// the look-up must have been found (ok) before sending
			c.ruleLookupConsumes(r3, callee)
		}
		r2.OK(key, call.Pos(), "0x%02X -> %s.Parse -> %s -> non-blocking send of the parsed packet", arm.K, want, FuncName(callee))
	}
}

// ruleLookupConsumes: the look-up method deletes the entry it returns on every path.
func (c *Ctx) ruleLookupConsumes(rr *RuleRep, f *ssa.Function) {
	key := FuncName(f)
	if len(f.Params) != 2 {
		rr.Undecided(key, f.Pos(), "unexpected look-up signature")
		return
	}
	id := f.Params[1]
	var lookups []*ssa.Lookup
	eachInstr(f, func(in ssa.Instruction) {
		if l, ok := in.(*ssa.Lookup); ok {
			if _, isMap := l.X.Type().Underlying().(*types.Map); isMap {
				lookups = append(lookups, l)
			}
		}
	})
	if len(lookups) == 0 {
		rr.Undecided(key, f.Pos(), "no map look-up in look-up method")
		return
	}
	mapField := func(v ssa.Value) *types.Var {
		u, ok := v.(*ssa.UnOp)
		if !ok || u.Op != token.MUL {
			return nil
		}
		fa, ok := u.X.(*ssa.FieldAddr)
		if !ok {
			return nil
		}
		_, fld := fieldOf(fa)
		return fld
	}
	for _, l := range lookups {
		fld := mapField(l.X)
		if fld == nil || l.Index != ssa.Value(id) {
			rr.Undecided(key, l.Pos(), "look-up is not m[id] on a signaller map field")
			continue
		}
		isDelete := func(in ssa.Instruction, deferred bool) bool {
			cc := callCommon(in)
			if cc == nil {
				return false
			}
			if _, isDefer := in.(*ssa.Defer); isDefer != deferred {
				return false
			}
			b, ok := cc.Value.(*ssa.Builtin)
			if !ok || b.Name() != "delete" || len(cc.Args) != 2 {
				return false
			}
			return mapField(cc.Args[0]) == fld && cc.Args[1] == ssa.Value(id)
		}
		// deferred delete executed before the look-up on every path, or direct delete after it on every path
		if Dominated(f, l, func(in ssa.Instruction) bool { return isDelete(in, true) }, PathQ{}) {
			rr.OK(key, l.Pos(), "entry is deleted (deferred) whenever it is looked up")
			continue
		}
		if _, ok := MustFollow(f, l, func(in ssa.Instruction) bool { return isDelete(in, false) }, func(in ssa.Instruction) bool { return !realExit(in) }, PathQ{}); ok {
			rr.OK(key, l.Pos(), "entry is deleted after the look-up on every path")
			continue
		}
		rr.Bad(key, l.Pos(), "%s can return a waiter without deleting its entry: a second acknowledgement with the same identifier would be routed to a request that already completed (or to a later request reusing the id)", FuncName(f))
	}
}

// ruleInlineLookup: the waiter look-up of a serve arm made directly on a table of the signaller.
func (c *Ctx) ruleInlineLookup(r2, r3 *RuleRep, m *serveModel, arm *serveArm, want, key string, lk *ssa.Lookup, ownSig func(ssa.Value) bool) {
	tableOf := func(v ssa.Value) (*types.Var, ssa.Value) {
		u, ok := v.(*ssa.UnOp)
		if !ok || u.Op != token.MUL {
			return nil, nil
		}
		fa, ok := u.X.(*ssa.FieldAddr)
		if !ok || !inSignaller(fa) {
			return nil, nil
		}
		_, fld := fieldOf(fa)
		sb, _ := signallerBase(fa)
		return fld, sb
	}
	fld, base := tableOf(lk.X)
	if fld == nil {
		r2.Bad(key, lk.Pos(), "the channel the %s is handed to does not come from a waiter table of the signaller", want)
		return
	}
	if !arm.Instr[lk] {
		r2.Bad(key, lk.Pos(), "the waiter look-up is not performed per packet (outside the arm)")
		return
	}
	if !ownSig(base) {
		r2.Bad(key, lk.Pos(), "look-up is not made in this client's signaller")
		return
	}
	kind, idv, ok := c.waiterEntry(lk.X, lk.Index)
	if !ok {
		r2.Bad(key, lk.Pos(), "the look-up key does not determine the acknowledgement kind and the packet identifier")
		return
	}
	if kind != want {
		r2.Bad(key, lk.Pos(), "the arm parsing %s looks its waiter up among the %s waiters", want, kind)
		return
	}
	b, isID := isFieldLoad(c.Resolve(idv), want, "ID")
	if !isID || c.Resolve(b) != arm.Pkt {
		r2.Bad(key, lk.Pos(), "look-up key is not the identifier of the %s parsed in this arm", want)
		return
	}
	// consumed: on every path from the look-up to the next packet (or out of serve) the entry is deleted under the same key
	isDelete := func(in ssa.Instruction) bool {
		cc := callCommon(in)
		if cc == nil {
			return false
		}
		if _, isDefer := in.(*ssa.Defer); isDefer {
			return false
		}
		bi, ok := cc.Value.(*ssa.Builtin)
		if !ok || bi.Name() != "delete" || len(cc.Args) != 2 {
			return false
		}
		f2, b2 := tableOf(cc.Args[0])
		if f2 != fld || c.Resolve(b2) != c.Resolve(base) {
			return false
		}
		if cc.Args[1] == lk.Index {
			return true
		}
		k2, id2, ok := c.waiterEntry(cc.Args[0], cc.Args[1])
		if !ok || k2 != kind {
			return false
		}
		if c.Resolve(id2) == c.Resolve(idv) {
			return true
		}
		// the identifier of the parsed packet read once more
		b2, isID2 := isFieldLoad(c.Resolve(id2), want, "ID")
		return isID2 && c.Resolve(b2) == arm.Pkt
	}
	lkey := "serve/" + want + "/consume"
	if w, leak := CanReach(m.F, lk, func(in ssa.Instruction) bool { return in == ssa.Instruction(m.Read) || realExit(in) }, PathQ{BlockInstr: isDelete}); leak {
		r3.Bad(lkey, w.Pos(), "the waiter entry of a %s can stay in the table after it was looked up: a second acknowledgement with the same identifier would be routed to a request that already completed (or to a later request reusing the id)", want)
	} else {
		r3.OK(lkey, lk.Pos(), "entry is deleted after the look-up on every path")
	}
	r2.OK(key, lk.Pos(), "0x%02X -> %s.Parse -> look-up in table %s keyed by kind and identifier -> non-blocking send of the parsed packet", arm.K, want, fld.Name())
}

// readFunc: the function that reads one packet off the transport — the callee of the read call in serve (by role:
// results (packetType, byte, []byte, error)), readPacket on the reference tree.
func (c *Ctx) readFunc() *ssa.Function {
	if m, _ := c.serveModel(); m != nil && m.Read != nil {
		if g := c.StaticCalleeOf(&m.Read.Call); g != nil && g.Blocks != nil {
			return g
		}
	}
	return c.Func("readPacket")
}

// readerValues: the values through which the read function reaches the transport: its io.Reader parameter, or the loads
// of an io.Reader field of its receiver.
func (c *Ctx) readerValues(rp *ssa.Function) []ssa.Value {
	var out []ssa.Value
	isReader := func(t types.Type) bool {
		s := types.TypeString(t, nil)
		return s == "io.Reader" || s == "io.ReadWriteCloser" || s == "io.ReadWriter" || s == "io.ReadCloser"
	}
	for _, p := range rp.Params {
		if isReader(p.Type()) {
			out = append(out, p)
		}
	}
	if len(out) > 0 || rp.Signature.Recv() == nil || len(rp.Params) == 0 {
		return out
	}
	recv := rp.Params[0]
	eachInstr(rp, func(in ssa.Instruction) {
		ld, ok := in.(*ssa.UnOp)
		if !ok || ld.Op != token.MUL || !isReader(ld.Type()) {
			return
		}
		fa, ok := ld.X.(*ssa.FieldAddr)
		if ok && c.Resolve(fa.X) == ssa.Value(recv) {
			out = append(out, ld)
		}
	})
	return out
}
