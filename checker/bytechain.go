package main

import (
	"fmt"
	"go/token"
	"go/types"
	"strings"

	"golang.org/x/tools/go/ssa"
)

// bItem is one element of the byte sequence a []byte value is built from.
type bItem struct {
	Kind string // string, bytes, uint16, byte, raw, loop, opt, ref
	Val  ssa.Value
	Cond *condDesc
	Sub  []bItem
}

// condDesc names the condition guarding an optional group: a test on a field of the packet being packed.
type condDesc struct {
	If   *ssa.If
	Edge int
	Desc string // e.g. "Will != nil", "UserName != \"\"", "Retain", "QoS == 1"
	// a condition that is not a branch of the code: entry k of a constant table selected by a field (If is nil)
	SynField string
	SynK     int64
}

func (it bItem) String() string {
	switch it.Kind {
	case "loop":
		return "loop{" + itemsString(it.Sub) + "}"
	case "opt":
		return "if " + it.Cond.Desc + " {" + itemsString(it.Sub) + "}"
	case "ref":
		return "<acc>"
	}
	return it.Kind + "(" + describeOperand(it.Val) + ")"
}

func itemsString(its []bItem) string {
	var s []string
	for _, i := range its {
		s = append(s, i.String())
	}
	return strings.Join(s, ", ")
}

func describeOperand(v ssa.Value) string {
	if v == nil {
		return "?"
	}
	if k, ok := constInt(v); ok {
		return fmt.Sprintf("0x%X", k)
	}
	// a field held in a private named type and converted where it is encoded (packetID -> uint16) is still that field
	for {
		if cv, ok := v.(*ssa.Convert); ok {
			v = cv.X
			continue
		}
		if ct, ok := v.(*ssa.ChangeType); ok {
			v = ct.X
			continue
		}
		break
	}
	if ld, ok := v.(*ssa.UnOp); ok && ld.Op == token.MUL {
		if fa, ok := ld.X.(*ssa.FieldAddr); ok {
			_, fld := fieldOf(fa)
			inner := ""
			if ld2, ok := fa.X.(*ssa.UnOp); ok {
				if fa2, ok := ld2.X.(*ssa.FieldAddr); ok {
					_, f2 := fieldOf(fa2)
					inner = f2.Name() + "."
				}
			}
			return inner + fld.Name()
		}
	}
	return v.Name()
}

type chainCtx struct {
	c      *Ctx
	inProg map[ssa.Value]bool
	err    string
}

func (c *Ctx) newChain() *chainCtx { return &chainCtx{c: c, inProg: map[ssa.Value]bool{}} }

func sameItem(a, b bItem) bool {
	if a.Kind != b.Kind {
		return false
	}
	switch a.Kind {
	case "loop", "opt":
		if len(a.Sub) != len(b.Sub) {
			return false
		}
		for i := range a.Sub {
			if !sameItem(a.Sub[i], b.Sub[i]) {
				return false
			}
		}
		return a.Kind == "loop" || (a.Cond != nil && b.Cond != nil && a.Cond.If != nil && a.Cond.If == b.Cond.If)
	}
	return a.Val == b.Val
}

// condOfEdge describes the condition under which control enters pred (relative to the join block).
func (cc *chainCtx) condFor(pred, join *ssa.BasicBlock) *condDesc {
	f := join.Parent()
	// nearest If whose one edge dominates pred's first instruction but not join's
	var best *condDesc
	for _, b := range f.Blocks {
		iff := blockIf(b)
		if iff == nil || !b.Dominates(pred) {
			continue
		}
		for k := 0; k < 2; k++ {
			target := pred.Instrs[0]
			if b == pred {
				continue
			}
			if DominatedByEdge(f, target, b, k, PathQ{}) && !DominatedByEdge(f, join.Instrs[0], b, k, PathQ{}) {
				d := &condDesc{If: iff, Edge: k, Desc: cc.descCond(iff.Cond, k)}
				if best == nil || best.If.Block().Dominates(b) {
					best = d
				}
			}
		}
	}
	return best
}

func (cc *chainCtx) descCond(v ssa.Value, edge int) string {
	neg := edge == 1
	pre := func(s string) string {
		if neg {
			return "!(" + s + ")"
		}
		return s
	}
	switch x := v.(type) {
	case *ssa.BinOp:
		l := describeOperand(x.X)
		r := describeOperand(x.Y)
		if isNilConst(x.Y) {
			r = "nil"
		}
		if k, ok := x.Y.(*ssa.Const); ok && k.Value != nil && k.Value.Kind().String() == "String" {
			r = k.Value.ExactString()
		}
		return pre(l + " " + x.Op.String() + " " + r)
	case *ssa.UnOp:
		return pre(describeOperand(x))
	}
	return pre(v.Name())
}

// decompose returns the items a []byte value consists of.
func (cc *chainCtx) decompose(v ssa.Value) []bItem {
	c := cc.c
	if cc.inProg[v] {
		return []bItem{{Kind: "ref", Val: v}}
	}
	switch x := v.(type) {
	case *ssa.Call:
		if b, ok := x.Call.Value.(*ssa.Builtin); ok && b.Name() == "append" && len(x.Call.Args) == 2 {
			base := cc.decompose(x.Call.Args[0])
			arg := x.Call.Args[1]
			if sl, ok := arg.(*ssa.Slice); ok && sl.Low == nil && sl.High == nil {
				if al, ok := sl.X.(*ssa.Alloc); ok && al.Comment == "varargs" {
					for _, e := range arrayElems(al) {
						base = append(base, bItem{Kind: "byte", Val: e})
					}
					return base
				}
			}
			return append(base, cc.decomposeOperand(arg)...)
		}
		callee := c.StaticCalleeOf(&x.Call)
		if callee != nil && callee.Pkg == c.Pkg && callee.Signature.Recv() == nil {
			role := callee.Name()
			for _, n := range []string{"appendString", "appendBytes", "appendUint16", "packUint16"} {
				if callee == c.Func(n) {
					role = n
				}
			}
			switch role {
			case "appendString":
				return append(cc.decompose(x.Call.Args[0]), bItem{Kind: "string", Val: x.Call.Args[1]})
			case "appendBytes":
				return append(cc.decompose(x.Call.Args[0]), bItem{Kind: "bytes", Val: x.Call.Args[1]})
			case "appendUint16":
				return append(cc.decompose(x.Call.Args[0]), bItem{Kind: "uint16", Val: x.Call.Args[1]})
			case "packUint16":
				return []bItem{{Kind: "uint16", Val: x.Call.Args[0]}}
			case "packString":
				return []bItem{{Kind: "string", Val: x.Call.Args[0]}}
			case "packBytes":
				return []bItem{{Kind: "bytes", Val: x.Call.Args[0]}}
			}
		}
	case *ssa.Slice:
		if al, ok := x.X.(*ssa.Alloc); ok {
			if hi, ok := constInt(x.High); ok && hi == 0 {
				return nil // make([]byte, 0, n)
			}
			if x.Low == nil && x.High == nil {
				var out []bItem
				for _, e := range arrayElems(al) {
					out = append(out, bItem{Kind: "byte", Val: e})
				}
				return out
			}
		}
	case *ssa.MakeSlice:
		if k, ok := constInt(x.Len); ok && k == 0 {
			return nil
		}
	case *ssa.Phi:
		cc.inProg[v] = true
		defer delete(cc.inProg, v)
		blk := x.Block()
		var chains [][]bItem
		for _, e := range x.Edges {
			chains = append(chains, cc.decompose(e))
		}
		// loop header: one chain starts with ref(v)
		loopIdx := -1
		for i, ch := range chains {
			if len(ch) > 0 && ch[0].Kind == "ref" && ch[0].Val == v {
				loopIdx = i
			}
		}
		if loopIdx >= 0 && len(chains) == 2 {
			base := chains[1-loopIdx]
			body := chains[loopIdx][1:]
			return append(append([]bItem{}, base...), bItem{Kind: "loop", Sub: body})
		}
		// join: common prefix + optional tails
		prefix := chains[0]
		for _, ch := range chains[1:] {
			n := 0
			for n < len(prefix) && n < len(ch) && sameItem(prefix[n], ch[n]) {
				n++
			}
			prefix = prefix[:n]
		}
		out := append([]bItem{}, prefix...)
		nTail := 0
		for i, ch := range chains {
			if len(ch) > len(prefix) {
				nTail++
				out = append(out, bItem{Kind: "opt", Cond: cc.condFor(blk.Preds[i], blk), Sub: ch[len(prefix):]})
			}
		}
		if nTail > 1 {
			cc.err = "alternative (not optional) byte sequences at a join"
		}
		return out
	}
	return []bItem{{Kind: "raw", Val: v}}
}

func (cc *chainCtx) decomposeOperand(v ssa.Value) []bItem {
	switch v.(type) {
	case *ssa.Call, *ssa.Phi:
		if !cc.inProg[v] {
			its := cc.decompose(v)
			if len(its) > 0 && !(len(its) == 1 && its[0].Kind == "raw" && its[0].Val == v) {
				return its
			}
		}
	}
	return []bItem{{Kind: "raw", Val: v}}
}

// arrayElems: values stored into the elements of a fixed array literal, in index order.
func arrayElems(al *ssa.Alloc) []ssa.Value {
	arr, ok := al.Type().Underlying().(*types.Pointer).Elem().Underlying().(*types.Array)
	if !ok {
		return nil
	}
	out := make([]ssa.Value, arr.Len())
	for _, u := range *al.Referrers() {
		if ia, ok := u.(*ssa.IndexAddr); ok {
			k, ok := constInt(ia.Index)
			if !ok || int(k) >= len(out) {
				continue
			}
			for _, uu := range *ia.Referrers() {
				if st, ok := uu.(*ssa.Store); ok && st.Addr == ssa.Value(ia) {
					out[k] = st.Val
				}
			}
		}
	}
	return out
}

// orItem is one contribution to a flag byte built by |= under conditions.
type orItem struct {
	Mask int64
	Cond *condDesc // nil = unconditional
	Alt  []orItem  // alternatives of a switch (each with its own Cond)
}

func (o orItem) String() string {
	if len(o.Alt) > 0 {
		var s []string
		for _, a := range o.Alt {
			s = append(s, a.String())
		}
		return "switch{" + strings.Join(s, "; ") + "}"
	}
	if o.Cond == nil {
		return fmt.Sprintf("0x%02X", o.Mask)
	}
	return fmt.Sprintf("if %s |0x%02X", o.Cond.Desc, o.Mask)
}

// decomposeOr: v = base | m1 (if c1) | ... ; returns base constant and contributions.
func (cc *chainCtx) decomposeOr(v ssa.Value) (int64, []orItem, bool) {
	c := cc.c
	if bo, isOr := v.(*ssa.BinOp); !isOr || bo.Op != token.OR {
		if k, ok := c.constByte(v); ok {
			return k, nil, true
		}
	}
	switch x := v.(type) {
	case *ssa.Call:
		// a helper returning flag bits: inline the decomposition of its (single) return value
		if g := c.StaticCalleeOf(&x.Call); g != nil && g.Pkg == c.Pkg && g.Blocks != nil {
			rets := returnsOf(g)
			if len(rets) == 1 && len(rets[0].Results) == 1 {
				return cc.decomposeOr(rets[0].Results[0])
			}
		}
	case *ssa.BinOp:
		if x.Op == token.OR {
			_, isCallY := stripConv(x.Y).(*ssa.Call)
			if _, isPhiY := stripConv(x.Y).(*ssa.Phi); isPhiY {
				isCallY = true // a sub-chain computed separately (an inlined helper's result)
			}
			if ld, isLd := stripConv(x.Y).(*ssa.UnOp); isLd && ld.Op == token.MUL {
				if ia, isIA := ld.X.(*ssa.IndexAddr); isIA {
					if _, isG := ia.X.(*ssa.Global); isG {
						isCallY = true // an entry of a constant table
					}
				}
			}
			if isCallY {
				if _, isK := c.constByte(x.Y); !isK {
					b1, its1, ok1 := cc.decomposeOr(x.X)
					b2, its2, ok2 := cc.decomposeOr(stripConv(x.Y))
					if ok1 && ok2 {
						out := its1
						if b2 != 0 {
							out = append(out, orItem{Mask: b2})
						}
						return b1, append(out, its2...), true
					}
				}
			}
			if m, ok := c.constByte(x.Y); ok {
				b, its, ok := cc.decomposeOr(x.X)
				return b, append(its, orItem{Mask: m}), ok
			}
			if m, ok := c.constByte(x.X); ok {
				b, its, ok := cc.decomposeOr(x.Y)
				return b, append(its, orItem{Mask: m}), ok
			}
		}
	case *ssa.Convert:
		return cc.decomposeOr(x.X)
	case *ssa.ChangeType:
		return cc.decomposeOr(x.X)
	case *ssa.UnOp:
		// an entry of a constant table indexed by a field (`publishFlagQoS[msg.QoS]`): one alternative per entry
		if x.Op == token.MUL {
			if ia, ok := x.X.(*ssa.IndexAddr); ok {
				if g, ok := ia.X.(*ssa.Global); ok {
					if tbl, n, ok := c.constTable(g); ok {
						fld := ""
						if ld, isLd := stripConv(ia.Index).(*ssa.UnOp); isLd && ld.Op == token.MUL {
							if fa, isFA := ld.X.(*ssa.FieldAddr); isFA {
								_, f := fieldOf(fa)
								if f != nil {
									fld = f.Name()
								}
							}
						}
						if fld != "" && n > 0 && n <= 16 {
							var alts []orItem
							for k := 0; k < n; k++ {
								alts = append(alts, orItem{Mask: tbl[int64(k)], Cond: &condDesc{Desc: fmt.Sprintf("%s == %d", fld, k), SynField: fld, SynK: int64(k)}})
							}
							return 0, []orItem{{Alt: alts}}, true
						}
					}
				}
			}
		}
	case *ssa.Phi:
		if cc.inProg[v] {
			cc.err = "cyclic phi " + x.Name()
			return 0, nil, false
		}
		cc.inProg[v] = true
		defer delete(cc.inProg, v)
		blk := x.Block()
		type ch struct {
			base int64
			its  []orItem
		}
		var chs []ch
		for _, e := range x.Edges {
			b, its, ok := cc.decomposeOr(e)
			if !ok {
				cc.err += " <- cannot decompose " + e.Name() + " = " + e.String()
				return 0, nil, false
			}
			chs = append(chs, ch{b, its})
		}
		differ := false
		for _, h := range chs[1:] {
			if h.base != chs[0].base {
				differ = true
			}
		}
		if differ {
			// the edges carry different constants (`return flagA` / `return flagB` of a selecting helper, or `x = k` per
			// case): the same as 0|k per edge
			for i := range chs {
				chs[i].its = append([]orItem{{Mask: chs[i].base}}, chs[i].its...)
				chs[i].base = 0
			}
		}
		// common prefix by (mask, cond-if)
		same := func(a, b orItem) bool {
			if len(a.Alt) > 0 || len(b.Alt) > 0 {
				return len(a.Alt) == len(b.Alt) && a.String() == b.String()
			}
			ai, bi := (*ssa.If)(nil), (*ssa.If)(nil)
			if a.Cond != nil {
				ai = a.Cond.If
			}
			if b.Cond != nil {
				bi = b.Cond.If
			}
			return a.Mask == b.Mask && ai == bi
		}
		prefix := chs[0].its
		for _, h := range chs[1:] {
			n := 0
			for n < len(prefix) && n < len(h.its) && same(prefix[n], h.its[n]) {
				n++
			}
			prefix = prefix[:n]
		}
		out := append([]orItem{}, prefix...)
		if len(chs) > 2 {
			// a join of more than two edges whose chains extend one another (an `if` that is the last statement of an enclosing
			// `if` jumps straight to the outer join): the longest chain, each of its items under the condition that separates
			// the edges that carry it from those that do not
			longest := 0
			for i, h := range chs {
				if len(h.its) > len(chs[longest].its) {
					longest = i
				}
			}
			chain := true
			for _, h := range chs {
				for k := len(prefix); k < len(h.its); k++ {
					if !same(h.its[k], chs[longest].its[k]) {
						chain = false
					}
				}
			}
			if chain {
				f := blk.Parent()
				for k := len(prefix); k < len(chs[longest].its); k++ {
					item := chs[longest].its[k]
					if item.Cond != nil || len(item.Alt) > 0 {
						out = append(out, item)
						continue
					}
					var in, ex []*ssa.BasicBlock
					for i, h := range chs {
						if len(h.its) > k {
							in = append(in, blk.Preds[i])
						} else {
							ex = append(ex, blk.Preds[i])
						}
					}
					var best *condDesc
					for _, b := range f.Blocks {
						iff := blockIf(b)
						if iff == nil {
							continue
						}
						for e := 0; e < 2; e++ {
							ok := true
							for _, p := range in {
								if !(b == p && false) && !DominatedByEdge(f, p.Instrs[len(p.Instrs)-1], b, e, PathQ{}) {
									ok = false
								}
							}
							for _, p := range ex {
								if DominatedByEdge(f, p.Instrs[len(p.Instrs)-1], b, e, PathQ{}) {
									ok = false
								}
							}
							if ok && (best == nil || best.If.Block().Dominates(b)) {
								best = &condDesc{If: iff, Edge: e, Desc: cc.descCond(iff.Cond, e)}
							}
						}
					}
					if best == nil {
						chain = false
						break
					}
					out = append(out, orItem{Mask: item.Mask, Cond: best})
				}
				if chain {
					return chs[0].base, out, true
				}
				out = append([]orItem{}, prefix...)
			}
		}
		var alts []orItem
		for i, h := range chs {
			tail := h.its[len(prefix):]
			cond := cc.condFor(blk.Preds[i], blk)
			if len(tail) == 0 {
				if len(chs) > 2 {
					alts = append(alts, orItem{Mask: 0, Cond: cond})
				}
				continue
			}
			m := int64(0)
			flat := true
			for _, t := range tail {
				if t.Cond != nil || len(t.Alt) > 0 {
					flat = false
				}
				m |= t.Mask
			}
			if flat {
				alts = append(alts, orItem{Mask: m, Cond: cond})
			} else {
				// nested conditionals inside this branch
				for _, t := range tail {
					if t.Cond == nil && len(t.Alt) == 0 {
						alts = append(alts, orItem{Mask: t.Mask, Cond: cond})
					} else {
						alts = append(alts, t)
					}
				}
			}
		}
		if len(chs) > 2 {
			out = append(out, orItem{Alt: alts})
		} else {
			out = append(out, alts...)
		}
		return chs[0].base, out, true
	}
	return 0, nil, false
}
