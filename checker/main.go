package main

import (
	"encoding/json"
	"flag"
	"fmt"
	"os"
	"runtime/debug"
	"sort"
	"strconv"
	"strings"
	"time"
)

// propertyCheck runs all rules of one property over a loaded tree.
type propertyCheck func(r *Run)

var registry = map[string]propertyCheck{}
var explanations = map[string]string{}

func register(id, explanation string, fn propertyCheck) {
	registry[id] = fn
	explanations[id] = explanation
}

func main() {
	prop := flag.String("property", "", "property id (C01..C20)")
	tier := flag.String("tier", "quick", "quick|thorough")
	repo := flag.String("repo", "/repo", "repository root")
	verif := flag.String("verif", "/verif", "verif root (evidence, known findings)")
	replay := flag.String("replay", "", "replay file: re-evaluate the recorded obligation on the current tree")
	list := flag.Bool("list", false, "list properties")
	allprops := flag.Bool("allprops", false, "run the quick tier of every property on one load of -repo (used by the self test); prints ALLPROPS-END <id> <exit code> per property")
	flag.Parse()
	if t := os.Getenv("VERIF_TIER"); t != "" && *tier == "" {
		*tier = t
	}
	if *list {
		ids := []string{}
		for id := range registry {
			ids = append(ids, id)
		}
		sort.Strings(ids)
		for _, id := range ids {
			fmt.Println(id)
		}
		return
	}
	seed := int64(0)
	if s := os.Getenv("VERIF_SEED"); s != "" {
		seed, _ = strconv.ParseInt(s, 10, 64)
	}
	if *replay != "" {
		os.Exit(doReplay(*replay, *repo, *verif, seed))
	}
	if *allprops {
		runAllProps(*repo, *verif, seed)
		return
	}
	fn, ok := registry[*prop]
	if !ok {
		fmt.Printf("unknown property %q\n", *prop)
		os.Exit(2)
	}
	os.Exit(runProperty(*prop, *tier, *repo, *verif, seed, fn))
}

func runProperty(prop, tier, repo, verif string, seed int64, fn propertyCheck) (code int) {
	start := time.Now()
	var r *Run
	archs := []string{"amd64"}
	if tier == "thorough" {
		archs = append(archs, "386")
	}
	analysed := map[string]interface{}{}
	defer func() {
		if p := recover(); p != nil {
			fmt.Printf("CHECKER-PANIC: %v\n%s\n", p, debug.Stack())
			if r == nil {
				r = newRun(prop, tier, nil)
			}
			r.Explain = explanations[prop]
			rr := r.Rule("CHECKER", "the checker itself must complete")
			rr.add("undecided", "panic", 0, false, "checker panicked: %v", p)
			code = r.Finish(verif, start, seed, analysed, nil)
			if code == 0 {
				code = 1
			}
		}
	}()
	var configs []string
	for i, arch := range archs {
		c, err := LoadNormalized(repo, arch, nil)
		if err != nil {
			if r == nil {
				r = newRun(prop, tier, nil)
			}
			r.Explain = explanations[prop]
			rr := r.Rule("LOAD", "the current tree must load and type-check (GOARCH="+arch+")")
			rr.add("undecided", "load/"+arch, 0, false, "%v", err)
			fmt.Printf("LOAD FAILED (%s): %v\n", arch, err)
			return r.Finish(verif, start, seed, analysed, nil)
		}
		if i == 0 {
			r = newRun(prop, tier, c)
			r.Explain = explanations[prop]
			fn(r)
			if len(c.NormNotes) > 0 {
				analysed["normalisation"] = c.NormNotes
				for _, nt := range c.NormNotes {
					fmt.Printf("   normalise: %s\n", nt)
				}
			}
			analysed["package"] = modPath
			analysed["files"] = c.Files
			analysed["functions"] = len(c.Funcs)
			analysed["out_of_scope"] = []string{"paho/ (separate module)", "mock/", "examples/", "internal/filteredpipe", "*_test.go"}
		} else {
			// other configurations: re-run all rules; any non-discharged obligation is carried over
			r2 := newRun(prop, tier, c)
			fn(r2)
			for _, o := range r2.Obs {
				if o.Status != "discharged" {
					o.Construct += " [GOARCH=" + arch + "]"
					r.Obs = append(r.Obs, o)
				}
			}
			r.Notes = append(r.Notes, fmt.Sprintf("GOARCH=%s: %d obligations re-evaluated", arch, len(r2.Obs)))
		}
		configs = append(configs, "GOARCH="+arch)
	}
	analysed["configurations"] = configs
	var st interface{}
	if tier == "thorough" {
		st = runSelfTests(prop, repo)
	}
	return r.Finish(verif, start, seed, analysed, st)
}

func doReplay(path, repo, verif string, seed int64) int {
	b, err := os.ReadFile(path)
	if err != nil {
		fmt.Println(err)
		return 2
	}
	var rec struct {
		Obligation Obligation `json:"obligation"`
	}
	if err := json.Unmarshal(b, &rec); err != nil {
		fmt.Println(err)
		return 2
	}
	fn, ok := registry[rec.Obligation.Property]
	if !ok {
		fmt.Println("unknown property in replay file")
		return 2
	}
	c, err := LoadNormalized(repo, "amd64", nil)
	if err != nil {
		fmt.Println(err)
		return 1
	}
	r := newRun(rec.Obligation.Property, "quick", c)
	fn(r)
	for _, o := range r.Obs {
		if o.Construct == rec.Obligation.Construct {
			fmt.Printf("%s: [%s] %s: %s\n", o.Pos, o.Construct, o.Status, o.Why)
			if o.Status != "discharged" {
				fmt.Printf("VIOLATION property=%s replay=%s\n", o.Property, path)
				return 1
			}
			return 0
		}
	}
	fmt.Printf("obligation %q no longer exists on the current tree\n", rec.Obligation.Construct)
	return 0
}

// runAllProps: the quick tier of every property on one load of the tree (the self test analyses several hundred variant
// trees; loading each once instead of once per property is what makes the thorough tier affordable). Every property gets
// its own Run; the rules share only the loaded program and its lazily computed, property-independent models.
func runAllProps(repo, verif string, seed int64) {
	ids := []string{}
	for id := range registry {
		if strings.HasPrefix(id, "C") && len(id) == 3 {
			ids = append(ids, id)
		}
	}
	sort.Strings(ids)
	c, err := LoadNormalized(repo, "amd64", nil)
	for _, id := range ids {
		fmt.Printf("ALLPROPS-BEGIN %s\n", id)
		code := 1
		func() {
			defer func() {
				if p := recover(); p != nil {
					fmt.Printf("CHECKER-PANIC: %v\n", p)
					code = 1
				}
			}()
			if err != nil {
				fmt.Printf("LOAD FAILED (amd64): %v\n", err)
				return
			}
			start := time.Now()
			r := newRun(id, "quick", c)
			r.Explain = explanations[id]
			registry[id](r)
			code = r.Finish(verif, start, seed, map[string]interface{}{}, nil)
		}()
		fmt.Printf("ALLPROPS-END %s %d\n", id, code)
	}
}
