#!/bin/bash
# usage: check.sh <property-id> [quick|thorough]
# Rebuilds the checker if its sources changed (cached build), then analyses /repo's current working tree.
export GOFLAGS=-mod=mod GOPROXY=off GOSUMDB=off GOTOOLCHAIN=local GOWORK=off
here="$(cd "$(dirname "$0")" && pwd)"
prop="$1"; tier="${2:-${VERIF_TIER:-quick}}"
mkdir -p "$here/bin"
if ! (cd "$here/checker" && go build -o "$here/bin/mqttcheck" . ) ; then
  echo "checker build failed"; exit 2
fi
exec "$here/bin/mqttcheck" -property "$prop" -tier "$tier" -repo "${VERIF_REPO:-/repo}" -verif "$here"
