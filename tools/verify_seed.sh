#!/bin/bash
# usage: verify_seed.sh <prop> <mN> <srcdir>   -- independently confirms a seeded change and stores it under /verif/seeded/<prop>-<mN>/
export GOFLAGS=-mod=mod GOPROXY=off GOSUMDB=off GOTOOLCHAIN=local
prop="$1"; m="$2"; src="$3"
id="$prop-$m"
wt="/tmp/vs-$id"
rm -rf "$wt"; git -C /repo worktree prune
git -C /repo worktree add -q --detach "$wt" HEAD || exit 2
cd "$wt"
res() { echo "$1" >> "$wt/_log"; }
ok=1
git apply "$src/patch.diff" || { echo "$id: patch does not apply"; ok=0; }
if [ $ok = 1 ]; then
  go build ./... >/dev/null 2>&1 || { echo "$id: does not build"; ok=0; }
fi
if [ $ok = 1 ]; then
  s=$(go test -vet=off -count=1 . 2>&1 | tail -1); echo "$id suite-with-change: $s"
  case "$s" in ok*) ;; *) ok=0;; esac
fi
if [ $ok = 1 ]; then
  cp "$src/demo_test.go" ./zz_seeded_demo_test.go
  fails=0
  for i in 1 2 3; do go test -vet=off -count=1 -timeout 120s -run TestSeeded . >/dev/null 2>&1 || fails=$((fails+1)); done
  echo "$id demo-with-change: failed $fails/3"
  [ $fails = 3 ] || ok=0
  git checkout -q -- . 
  passes=0
  for i in 1 2 3; do go test -vet=off -count=1 -timeout 120s -run TestSeeded . >/dev/null 2>&1 && passes=$((passes+1)); done
  echo "$id demo-without-change: passed $passes/3"
  [ $passes = 3 ] || ok=0
fi
cd /
git -C /repo worktree remove --force "$wt"
if [ $ok = 1 ]; then
  d="/verif/seeded/$id"; mkdir -p "$d"
  cp "$src/patch.diff" "$d/patch.diff"; cp "$src/demo_test.go" "$d/demo_test.go"; cp "$src/README.md" "$d/README.agent.md" 2>/dev/null
  echo "$id: CONFIRMED"
else
  echo "$id: REJECTED"
fi
