#!/bin/bash
# usage: neutral.sh [neutral-dir ...]
# Behaviour-preserving variants: every property's quick check must stay silent. Uses scratch worktrees; /repo is untouched.
export GOFLAGS=-mod=mod GOPROXY=off GOSUMDB=off GOTOOLCHAIN=local
(cd /verif/checker && go build -o /verif/bin/mqttcheck .) || exit 2
dirs="$@"; [ -z "$dirs" ] && dirs=$(ls -d /verif/neutral/*/)
props="C01 C02 C03 C04 C05 C06 C07 C08 C09 C10 C11 C12 C13 C14 C15 C16 C17 C18 C19 C20"
one() {
  d="$1"; id=$(basename "$d")
  wt="/tmp/nx-$id"; rm -rf "$wt"
  git -C /repo worktree add -q --detach "$wt" HEAD 2>/dev/null || { echo "$id: worktree failed"; return; }
  if ! git -C "$wt" apply "$d/patch.diff" 2>/dev/null; then echo "$id: PATCH FAILS"; git -C /repo worktree remove --force "$wt"; return; fi
  fired=""
  for p in $props; do
    out=$(/verif/bin/mqttcheck -property $p -repo "$wt" -verif "/tmp/nxv-$id" 2>&1) || { fired="$fired$p "; echo "$out" | grep -E "VIOLATED|UNDECIDED|ANCHOR-LOST|PANIC|LOAD" | head -4 | sed "s/^/      [$id] /" | cut -c1-330; }
  done
  git -C /repo worktree remove --force "$wt"; rm -rf "/tmp/nxv-$id"
  if [ -z "$fired" ]; then echo "$id: SILENT"; else echo "$id: FALSE ALARM in: $fired"; fi
}
export -f one; export props
printf '%s\n' $dirs | xargs -P 5 -I{} bash -c 'one {}'
git -C /repo worktree prune
