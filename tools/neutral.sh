#!/bin/bash
# usage: neutral.sh [neutral-dir ...]
# Behaviour-preserving variants: every property's quick check must stay silent. Uses scratch worktrees; /repo is untouched.
# Each variant tree is loaded once and all twenty properties are judged on it (mqttcheck -allprops; same verdicts as twenty
# separate runs, see DESIGN.md 9.1). MQTTCHECK_BIN overrides the binary (default: /verif/bin/mqttcheck, rebuilt first).
export GOFLAGS=-mod=mod GOPROXY=off GOSUMDB=off GOTOOLCHAIN=local
if [ -z "$MQTTCHECK_BIN" ]; then
  (cd /verif/checker && go build -o /verif/bin/mqttcheck .) || exit 2
  export MQTTCHECK_BIN=/verif/bin/mqttcheck
fi
dirs="$@"; [ -z "$dirs" ] && dirs=$(ls -d /verif/neutral/*/)
one() {
  d="$1"; id=$(basename "$d")
  wt="/tmp/nx-$id"; rm -rf "$wt"
  for try in 1 2 3 4 5; do git -C /repo worktree add -q --detach "$wt" HEAD 2>/dev/null && break; sleep 1; done  # (concurrent adds contend for a lock)
  [ -d "$wt" ] || { echo "$id: worktree failed"; return; }
  if ! git -C "$wt" apply "$d/patch.diff" 2>/dev/null; then echo "$id: PATCH FAILS"; git -C /repo worktree remove --force "$wt"; return; fi
  out=$("$MQTTCHECK_BIN" -allprops -repo "$wt" -verif "/tmp/nxv-$id" 2>&1)
  fired=$(echo "$out" | awk '/^ALLPROPS-END/ && $3 != 0 {printf "%s ", $2}')
  n=$(echo "$out" | grep -c '^ALLPROPS-END')
  [ "$n" = 20 ] || fired="$fired(incomplete:$n) "
  [ -n "$fired" ] && echo "$out" | grep -E "VIOLATED|UNDECIDED|ANCHOR-LOST|PANIC|LOAD" | head -8 | sed "s/^/      [$id] /" | cut -c1-330
  git -C /repo worktree remove --force "$wt"; rm -rf "/tmp/nxv-$id"
  if [ -z "$fired" ]; then echo "$id: SILENT"; else echo "$id: FALSE ALARM in: $fired"; fi
}
export -f one
printf '%s\n' $dirs | xargs -P 14 -I{} bash -c 'one {}'
git -C /repo worktree prune
