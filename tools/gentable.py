#!/usr/bin/env python3
"""Rewrites the detection table of DESIGN.md section 9.4 from seeded/*/meta.json (run tools/genmeta.py <matrix> first)."""
import json, glob, os, re
root='/verif/seeded'
def key(d):
    m=re.match(r'(C\d+)-(m|rD)(\d+)', os.path.basename(d))
    return (m.group(1), 0 if m.group(2)=='m' else 1, int(m.group(3)))
rows=[]; own=sib=none=0
for d in sorted(glob.glob(root+'/C*-*'), key=key):
    mf=d+'/meta.json'
    if not os.path.exists(mf): continue
    m=json.load(open(mf))
    sc=m.get('static_checks')
    if not sc: continue
    fired=sc['properties_whose_quick_check_fires']
    if sc['caught_by_claimed_property']: own+=1; y='yes'
    elif fired: sib+=1; y='**no**'
    else: none+=1; y='**no**'
    summ=(m.get('summary') or '').replace('|','\\|')
    if len(summ)>150: summ=summ[:147]+'...'
    rows.append('| %s | %s | %s | %s | %s |' % (m['id'], summ, ' '.join(m['files_touched']), y, ' '.join(fired) if fired else '—'))
p='/verif/DESIGN.md'
s=open(p).read()
hdr='| change | what it does (author\'s one-liner) | file(s) | own check | checks that fire |\n|---|---|---|---|---|\n'
i=s.index(hdr)
j=s.index('\n\n', i+len(hdr))
s=s[:i+len(hdr)]+'\n'.join(rows)+s[j:]
total=own+sib+none
s=re.sub(r'\d+ of \d+ changes are reported by the check of the property they were written against; \d+ more only by the check of a\nsibling property; \d+ by none\.',
         '%d of %d changes are reported by the check of the property they were written against; %d more only by the check of a\nsibling property; %d by none.' % (own,total,sib,none), s)
open(p,'w').write(s)
print(total, own, sib, none)
