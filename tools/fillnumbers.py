#!/usr/bin/env python3
"""usage: fillnumbers.py <neutral.out> <matrix.out> — fills the FILL-* placeholders of DESIGN.md from the two run logs."""
import re, sys
nf, mf = sys.argv[1], sys.argv[2]
sil, alarms = 0, []
for l in open(nf):
    m = re.match(r'(\S+): (SILENT|FALSE ALARM in: (.*))$', l.strip())
    if not m: continue
    if m.group(2) == 'SILENT': sil += 1
    else: alarms.append((m.group(1), m.group(3).split()))
total = sil + len(alarms)
caught = missed = sib = 0
missl = []
for l in open(mf):
    m = re.match(r'(\S+): (CAUGHT|MISSED)\s+fired: (.*)', l)
    if not m: continue
    if m.group(2) == 'CAUGHT': caught += 1
    else:
        missed += 1
        missl.append(m.group(1) + (' (reported by ' + ' '.join(m.group(3).split()) + ')' if m.group(3).split() else ''))
p = '/verif/DESIGN.md'
s = open(p).read()
names = ', '.join('`%s` (%s)' % (a, ' '.join(ps)) for a, ps in sorted(alarms))
neutral_txt = 'On the final binary `tools/neutral.sh` reports %d of %d variants silent on all twenty checks; the %d that raise alarms are %s' % (sil, total, len(alarms), names)
matrix_txt = '`tools/matrix.sh` reports %d of %d seeded changes caught by the check of their own property; the %d others are %s' % (caught, caught + missed, missed, ', '.join(missl))
s = s.replace('FILL-SILENT', str(sil))
s = s.replace('FILL-NEUTRAL', neutral_txt)
s = s.replace('FILL-MATRIX', matrix_txt)
# re-fill after an earlier fill
s = re.sub(r'On the final binary `tools/neutral\.sh` reports \d+ of \d+ variants silent on all twenty checks; the \d+ that raise alarms are [^.]*?\)(?=\. `tools/matrix)', neutral_txt, s)
s = re.sub(r'`tools/matrix\.sh` reports \d+ of \d+ seeded changes caught by the check of their own property; the \d+ others are [^.]*?(?=\. The variants that still raise alarms)', matrix_txt, s)
s = re.sub(r'the set has \d+ variants, of which \d+ are silent', 'the set has %d variants, of which %d are silent' % (total, sil), s)
open(p, 'w').write(s)
print(sil, total, len(alarms), caught, missed)
