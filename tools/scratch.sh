#!/bin/bash
# usage: scratch.sh <patch.diff> <dir>  -- creates a scratch worktree of /repo at <dir> with the patch applied (remove it with: git -C /repo worktree remove --force <dir>)
git -C /repo worktree add -q --detach "$2" HEAD && git -C "$2" apply "$1"
