#!/bin/bash
# usage: verify_neutral.sh <name> <patch.diff> [<demo_test.go>] [<readme>]
# Independently confirms a behaviour-preserving variant (builds, vets, suite passes 2x incl. -race, optional demo passes) in a
# scratch worktree and stores it under /verif/neutral/<name>/.
export GOFLAGS=-mod=mod GOPROXY=off GOSUMDB=off GOTOOLCHAIN=local
name="$1"; patch="$2"; demo="$3"; readme="$4"
wt="/tmp/vn-$name"; rm -rf "$wt"; git -C /repo worktree prune
git -C /repo worktree add -q --detach "$wt" HEAD || exit 2
cd "$wt"; ok=1
git apply "$patch" || { echo "$name: patch does not apply"; ok=0; }
[ $ok = 1 ] && { go build ./... >/dev/null 2>&1 && go vet . >/dev/null 2>&1 || { echo "$name: build/vet fails"; ok=0; }; }
if [ $ok = 1 ]; then
  for i in 1 2; do s=$(go test -vet=off -count=1 . 2>&1 | tail -1); case "$s" in ok*) ;; *) ok=0; echo "$name suite: $s";; esac; done
  s=$(go test -vet=off -race -count=1 . 2>&1 | tail -1); case "$s" in ok*) ;; *) ok=0; echo "$name suite -race: $s";; esac
fi
if [ $ok = 1 ] && [ -n "$demo" ] && [ -f "$demo" ]; then
  cp "$demo" ./zz_demo_test.go
  for i in 1 2 3; do go test -vet=off -count=1 -timeout 120s -run TestSeeded . >/dev/null 2>&1 || { ok=0; echo "$name: demo fails with the variant"; }; done
fi
cd /; git -C /repo worktree remove --force "$wt"
if [ $ok = 1 ]; then d="/verif/neutral/$name"; mkdir -p "$d"; cp "$patch" "$d/patch.diff"; [ -n "$readme" ] && [ -f "$readme" ] && cp "$readme" "$d/README.md"; echo "$name: CONFIRMED-NEUTRAL"; else echo "$name: REJECTED"; fi
