# One claim()/na() per property. Executed by genmanifest.py.

claim("C20",
      "Aliasing is a static notion: the check decides on all paths that (*Message).clone is a deep, exhaustive copy (every struct field enumerated from go/types; slice fields through a fresh backing array), that every Handler.Serve hand-over in ServeMux.Serve / ServeAsync.Serve receives a clone of the dispatcher's own parameter (or a Message filled in place by the same criteria) taken anew per hand-over and in the dispatching goroutine, and that neither dispatcher stores the message or a clone. That is the property itself up to handlers sharing state by other means.",
      "Not covered: handlers that share state among themselves outside the message; user Handler implementations.",
      "SSA value-origin + CFG path rules (fresh-clone-per-hand-over, field-exhaustive deep copy, no back-channel)",
      "DESIGN.md section 4, C20")

claim("C01",
      "Whole property (eventual acknowledgement under all fault sequences) is a liveness claim against a broker and is NOT decided. Decided on all paths of the code: the hand-over points an accepted request passes through — accepted => enqueued (API -> pushTask closure with the API's own arguments), wake-up of the task goroutine cannot be lost, the task never discards a QoS>=1 request, a failed request's Retry handle is queued and the link recycled, every failure after the waiter was registered carries a retry handle, the handle re-issues this request on the client it is given, Retry() keeps the failed entry's continuation and everything unattempted, and the reconnect loop calls Retry() after every successful Connect. Each clause is a necessary condition: the fault sequence driving a violating path loses the request.",
      "Not covered: that a reconnect eventually happens and the broker answers; Disconnect; process crash; behaviour of user callbacks / Transport.",
      "CFG must-pass-through and edge-dominance rules over go/ssa with closure/cell value-origin resolution and QoS-specialised CFGs",
      "DESIGN.md section 4, C01")

claim("C02",
      "Whole property (delivery count at a conforming broker for every cut sequence) needs a broker model and is NOT decided. Decided: the sender-side QoS 2 typestate MQTT 4.3.3 prescribes — after PUBREC every retry handle handed out is the PUBREL stage itself and no call path leads back to PUBLISH; Retry() re-queues exactly one continuation of the failed entry plus the entries not yet attempted (no duplicate, no loss) and executes nothing after the first failure; the PUBREL stage succeeds only through a PUBCOMP waiter created in that stage and registered under the message id in the signaller of the client written to.",
      "Not covered: the receiver side at the broker, broker-side session loss, duplicates caused by colliding caller-chosen ids.",
      "typestate over retry-handle values (SSA value origin), call-graph reachability from the PUBREL stage, symbolic decomposition of append chains in Retry()",
      "DESIGN.md section 4, C02")

claim("C07",
      "Decided: the routing structure that makes a request complete only on its own acknowledgement, on every path: a fresh buffered waiter is registered under the packet's own id, in the signaller of the client written to and under its lock, before the request is written (7 request kinds); the chain serve-arm constant -> Parse type -> signaller look-up keyed by the parsed id -> non-blocking hand-over closes for the 7 acknowledgement kinds against the MQTT type table; every look-up deletes the entry it returns; nil-error returns are dominated by the receive from the registered waiter; Subscribe's success is dominated by count equality, the mismatch edge returns ErrInvalidSubAck and the copy-back uses one index on both sides.",
      "Not covered: schedules of concurrent callers as such — reduced to consistent locking of the waiter maps (C10) and pairwise different ids of outstanding requests (C15).",
      "CFG dominance + SSA value identity (waiter channel, id, signaller origin) + spec table cross-check",
      "DESIGN.md section 4, C07")

claim("C12",
      "Decided: who may write the message and which handles can be handed out — Message.ID is stored only in publishImpl on the `ID == 0` edge from newID(); no other field of a caller-visible Message/Subscription is ever stored (zero-expected who-may-write rule with a positive control); Dup is set from the dup parameter on every path before Pack, Publish passes false and the retry handle true, and there are no other callers; the handle re-issues the enclosing call's own message; the deferred first transmission captures a complete private copy; after PUBREC no handle or call path leads back to PUBLISH; QoS 0 never yields a handle; Retry() re-queues without duplicates.",
      "Not covered: byte equality of the retransmitted packet (follows from these facts plus C05, not separately decided); an application mutating its Message while a publish is in flight.",
      "who-may-write over all FieldAddr stores of the package + edge dominance + handle value-origin typestate",
      "DESIGN.md section 4, C12")

claim("C03",
      "Whole property (order of PUBLISH packets observed on every connection) is behavioural and NOT decided. Decided: the queue discipline that produces it — one consumer goroutine started once that pops element 0 inside the critical section in which it loaded it; task queue and retry queue are only ever tail-appended, front-popped or reset after a snapshot (all stores in the package enumerated); a request is sent at once only on the `len(retryQueue)==0` edge, otherwise it queues behind; nothing reachable from a task starts a goroutine; Retry() iterates ascending, stops at the first failure and re-queues [continuation, unattempted tail] in that order; Resubscribe is queued before Retry; API calls go through the queue.",
      "Not covered: what a broker does with the order; several submitting goroutines (the statement speaks of one).",
      "who-may-write enumeration of queue stores + symbolic append-chain decomposition + edge dominance + call-graph reachability",
      "DESIGN.md section 4, C03")

claim("C11",
      "Close to fully structural: a call can block for ever only at a blocking operation, and the checker enumerates every blocking channel operation of the package. Each acknowledgement wait must be a three-way select (connection-closed channel of the client written to / Done() of the call's own context / the registered waiter) whose non-waiter cases return errors (cancelled case: ctx.Err() of that context); every other blocking operation must match a table entry with a structural side condition (reconnect-loop waits have returning `disconnected` and ctx.Done() cases, blocking sends only on channels created with capacity >= 1, ...); no wait under a mutex other than muConnecting and no exclusive acquisition of a mutex that is held across waits outside Connect; the reader goroutine closes the transport and then Done() on every path with nothing blocking in between; the held->acquired lock graph is acyclic.",
      "Not covered: blocking inside Transport.Read/Write (unblocked by Close: an assumption about the Transport) or inside user callbacks; 'promptly' as a duration; a request queued on muConnecting behind another goroutine's Connect does not observe its own context (by-design exception, listed).",
      "exhaustive classification of blocking SSA instructions + interprocedural must-hold lock-set analysis + CFG must-follow",
      "DESIGN.md section 4, C11")

claim("C18",
      "Decided: every request the retry client issues and every queued retry handle runs under a context obtained from requestContext(own ctx) whose cancel is released on every path; requestContext derives context.WithTimeout(ctx, ResponseTimeout) and reports expiry as RequestTimeoutError; a timed-out wait returns an error that carries its retry handle; on every failure — first transmission and retransmission alike — the error is reported through OnError, the handle is kept (wrapped in the request context again) and the connection is marked for closing, and the task loop closes it.",
      "Not covered: that the timer fires at the configured time; time spent blocked in Transport.Write.",
      "SSA value-origin of context operands + CFG must-follow on failure edges",
      "DESIGN.md section 4, C18")

claim("C13",
      "Decided: the classification structure of KeepAlive and the reaction of the reconnect loop — loop shape (ticker from the interval parameter, Ping under WithTimeout(own ctx, timeout parameter), success loops, returns only on the error edge); classification order on the error edge as two separate prioritised non-blocking tests (parent context => ctx.Err(), then timeout context => ErrPingTimeout, else the ping error) with no cancel of the timeout context before its test; the reconnect loop starts KeepAlive exactly when PingInterval > 0 for the iteration's own client under a child context cancelled on every exit of the connected phase, and a failure closes that client; Ping registers its waiter before writing and honours its context.",
      "Not covered: actual periodicity, drift, timer accuracy (delegated to time.Ticker / context.WithTimeout, whose operands are checked for identity only).",
      "CFG dominance/ordering rules over go/ssa selects + operand value-origin",
      "DESIGN.md section 4, C13")

claim("C15",
      "The structural facts are the argument: an atomically incremented 32-bit counter truncated to 16 bits gives pairwise different values for any 65536 consecutive draws, and skipping 0 costs one draw. Decided: idLast is touched only as &c.idLast operand of sync/atomic calls; newID = uint16(AddUint32(&c.idLast, odd constant)); StoreUint32 only in initID, called only from init(); newID returns the draw only on the `id != 0` edge, otherwise a fresh draw; subscribe/unsubscribe draw exactly once before registration and use the value as key and packet id; publish draws only when Message.ID == 0 and the queued copy keeps the caller's id; the seed interval lies in [1, 65535].",
      "Not covered: more than 65535 draws while one request stays outstanding; collisions with ids the caller supplied (both outside the statement's bound).",
      "who-may-access (all FieldAddr uses of the counter) + edge dominance + constant interval arithmetic",
      "DESIGN.md section 4, C15")

claim("C16",
      "Decided: Disconnected is absorbing and the callback fires only on a change, outside the lock, with the state stored and the error read in the same critical section (connStateUpdate is the sole writer of connState); who reports what (Active only from Connect on an accepting CONNACK received from the waiter; Closed only from the reader goroutine; Disconnected only from Disconnect and before DISCONNECT is written); reader exit records the error — exactly when the state is not Disconnected, tested under the lock — before Closed is reported and before Done() is closed; SetErrorOnce keeps the first error under muErr, is the sole writer of err, and is called only by the reader goroutine on its own client and by the keep-alive goroutine on the client it watches, before closing it; Done() returns the channel whose only close is the reader goroutine's.",
      "Not covered: the interleaving of a user Close() with Disconnect(); what the peer does.",
      "who-may-call / who-may-write tables by constant argument + edge dominance + lock-held-at checks + ordering (no path from later event to earlier)",
      "DESIGN.md section 4, C16")

claim("C17",
      "Decided: RetryClient.Handle stores the handler on every path and forwards the same value to the current client exactly when one exists, under the lock; RetryClient.Connect installs the stored handler on the client, inside the critical section in which it read the client, before that client's Connect starts its reader goroutine; BaseClient.Connect has no other caller in the package and the reconnect loop goes through SetClient + RetryClient.Connect; the reader loads the handler per message under the lock and BaseClient.Handle is the only writer of the field.",
      "Not covered: messages the broker sends before CONNACK processing finished; user handlers.",
      "CFG must-pass-through + dominance + who-may-call/write",
      "DESIGN.md section 4, C17")

claim("C19",
      "NOT decided: the chain-walking semantics of (*Error).Is (a data-dependent loop with reflection) — 'finds every sentinel at any depth, never reports an absent one' is a statement about all chains. Decided: wrapErrorImpl keeps the cause (Err = parameter; nil and io.EOF pass through on exactly their edges) and every wrapper delegates to it, the retry variant embedding the same *Error with the given handle; method-set witnesses via go/types; error-construction discipline over every returned error value of the package (nil / passed through / sentinel / wrapError* / library error struct — never fmt.Errorf or errors.New); an interrupted QoS>=1 publish, subscribe or unsubscribe returns an ErrorWithRetry whose handle re-issues that request on the client it is given; a cancelled caller context is reported as that context's error (request waits and KeepAlive's prioritised classification).",
      "Not covered: Is() semantics (see above); errors produced by user callbacks or the Transport.",
      "value-origin classification of every error return (SSA) + go/types method sets + handle typestate",
      "DESIGN.md section 4, C19")

claim("C08",
      "Whole property (set equality of broker-side subscriptions at quiescence, for all call histories and cut placements) depends on slice contents manipulated by index arithmetic (applyTo) and on interleavings with pending entries; it is NOT decided, and known value-level weaknesses of the bookkeeping (duplicates, repeated filters) are outside what shape rules can see. Decided: the configuration clauses — the resubscribe decision as a boolean function equals initialized AND (NOT sessionPresent OR AlwaysResubscribe) on all 8 rows (evaluated from the branch structure, any equivalent rewriting passes); 'initialized' starts false, only becomes true, and only after that iteration's decision; Resubscribe issues every element of an in-task snapshot of the established list through the queued subscribe path; subscribe/unsubscribe closures apply their own argument to the list before issuing the request and nothing else touches the list; the order of (un)subscribe requests survives queuing and retransmission.",
      "Not covered: correctness of the bookkeeping for repeated filters, duplicates inside one call, changed QoS; the broker's table.",
      "truth-table evaluation of the guarded region's branch structure + phi-leaf dataflow + who-may-access + CFG dominance",
      "DESIGN.md section 4, C08")

claim("C09",
      "Whole property mixes real time, open-transport counts and stop conditions under all schedules; elapsed time is NOT decided. Decided: the loop's shape — the waited value starts at ReconnectWaitBase, is reset to it only on the success edge of Connect, every way round the loop passes the timed wait on the current value, and the carried value is a growth by a constant factor >= 2 of the value just waited (clamped to Max only when larger); on every path from a successful dial to the next dial the client is closed and its Done() awaited; every loop wait has returning `disconnected` and ctx.Done() cases, done is closed by a deferred call, Disconnect closes `disconnected` before it disconnects and waits observing its context, the loop context is replaced only inside the once-only success block; a connection that ended with Err() == nil is not redialled; exactly one CONNECT per dial with the caller's client id and options, forwarded unchanged down to the packet.",
      "Not covered: wall-clock durations, races between Disconnect and a dial in progress, Disconnect during an outage leaving the task goroutine waiting.",
      "phi-leaf dataflow of the back-off value + CFG must-pass-through between dial sites + select case classification",
      "DESIGN.md section 4, C09")

claim("C14",
      "NOT decided: which filters are valid and which topics a filter matches (MQTT 4.7) — both quantify over all strings and are computed by data-dependent loops; no structural necessary condition short of re-deriving the algorithm separates a correct matcher from an incorrect one, and a rule keyed to the present loop shape would fire on behaviour-preserving rewrites. Decided: the dispatch clause only — Handle tail-appends {newTopicFilter(filter) result, handler} exactly on the nil-error edge; Serve visits the handlers in ascending index order without early exit and invokes an element's handler exactly when that same element's filter.Match(message.Topic) is true; topicFilter values are constructed only by newTopicFilter.",
      "Not covered (explicitly): any change to the level walk in topicFilter.Match or to the checks in newTopicFilter.",
      "CFG dominance + element/index value identity + who-constructs over go/types",
      "DESIGN.md section 4, C14")

claim("C04",
      "The serve loop is the only reader and strictly sequential, so the behaviour for every packet sequence is the composition of per-packet-kind effects plus the semantics of one Go map. Decided on every path of each arm (QoS-specialised for PUBLISH): QoS0 — the parsed message is handed over exactly once if a handler is registered, nothing written or stored; QoS1 — hand-over once, then exactly one PUBACK with the parsed id, never before the hand-over; QoS2 — exactly one PUBREC with the parsed id and the message held under that id, no hand-over; PUBREL — a hit hands over exactly the held message once, deletes the entry within the arm (a deferred delete does not count) and writes one PUBCOMP with the PUBREL's id, a miss hands over nothing; the sub-arm is selected by this packet's parsed QoS; the hold buffer is a non-escaping local created before the loop, serve runs only in Connect's goroutine and is the only reader of the transport; the handler is read per message; length guards of the PUBLISH/PUBREL parsers are exact (a minimal well-formed packet is not rejected).",
      "Not covered: payload/topic content (C05); QoS 2 state across connections (the hold buffer is per connection); an unknown PUBREL is not answered (the statement does not require it).",
      "per-arm effect-sequence analysis over the SSA CFG (must/never-follow, exactly-once, value identity of ids and messages) + guard-tightness from the bounds prover",
      "DESIGN.md section 4, C04")

claim("C06",
      "'Never panics, never over-allocates' is a property of every operation on peer-controlled data, which the checker enumerates over the read side (everything reachable from serve plus Subscribe's use of the SUBACK): every index/slice/string-index obligation is discharged by a small sound linear prover from dominating length facts, preconditions lifted to and proved at every call site, and callee result summaries (narrow unsigned arithmetic is opaque, so wrap-around is not assumed away); the body allocation is shown to be in [0, 2^28-1] by a bit-width domain with stride-aware loop counters, for 64- and (thorough) 32-bit int; no other panic source exists on the read side outside a reasoned table; every readPacket/Parse error ends serve with that error, unknown types, wrong reserved flags, short bodies, QoS 3 and U+0000 are rejected with the documented sentinels, serve never returns nil; the reader goroutine records the error before reporting Closed and before closing Done().",
      "Not covered: panics inside the user's handler or Transport; memory held by many in-flight packets; the slice in (*BaseClient).write depends on the io.Writer contract, not on peer bytes (table exception).",
      "guarded-index analysis: linear-form prover over dominating branch facts with interprocedural precondition lifting and summaries; bit-width abstract domain; error-discipline and sibling cross-checks",
      "DESIGN.md section 4, C06")

claim("C05",
      "Whole property (round trip of every emitted packet through an independent decoder for all inputs) is value-level and NOT decided. Decided: everything about packet construction that is a table, an order or a guard — 52 protocol constants against the MQTT 3.1.1 tables; the fixed-header byte of every pack site (type nibble, reserved bits; PUBLISH = 0x30 | retain?0x01 | qos<<1 | dup?0x08 with each bit guarded by its own field, recovered by decomposing the OR-chain over the CFG); Pack/Parse inverse QoS/retain/dup tables and agreement on identifier presence; field order of every packet body recovered by decomposing the byte sequence handed to pack() (CONNECT optional groups appended under the very test that sets their flag bit; SUBSCRIBE options byte a constant function of that filter's QoS only); length prefixes big-endian with every 16-bit truncation of a length dominated by the 65535 guard; the remaining-length encoder checked bit by bit (bit-slice evaluation) with exact thresholds for the four ranges, the decoder's mirror constants, pack() summing exactly the slices it appends; ValidateMessage dominating publishImpl and rejecting QoS > 2 / over-long payloads; inbound PUBLISH fields by operand identity and exact length guards.",
      "Not covered: equality of bytes for all inputs; UTF-8 handling of topics; SUBSCRIBE with a QoS above 2 (panics in Pack — outside the statement).",
      "symbolic decomposition of byte-append chains and OR-chains over SSA (loops, optional groups), bit-slice evaluation of the length encoder, constant tables via go/types, guard dominance",
      "DESIGN.md section 4, C05")

claim("C10",
      "This is a lock-discipline property and is decided as one: an interprocedural must-hold lock-set analysis (entry lock-sets by intersection over call sites, task/retry closures attributed to the goroutine that invokes them) gives every access to a field of the shared structs its lock-set and goroutine contexts; a field is accepted when every write/other-access pair is mutually excluded by a common lock held exclusively by at least one side, or both run in the same single non-API goroutine, or both are atomic, or one precedes the go statement that starts the other's goroutine, or both lie in one lifecycle function; locks taken on by-value copies are reported; Transport.Write is called only from BaseClient.write under the shared client's muWrite over the whole buffer; every write() operand is one whole Pack()/pack() result; the retry queue, established list and retry flag are task-goroutine-confined; the deleting signaller look-ups run only in serve; the id counter is atomic. On the pinned tree this analysis reported the four D7 races, which were repaired.",
      "Assumptions: lock identity is per (struct type, field), not per instance; lifecycle functions (Connect, SetClient, NewReconnectClient) are not called concurrently with themselves on one object. Not covered: races inside user callbacks, on the application's *Message, in mock/paho; schedule-level confirmation (the race detector's job).",
      "interprocedural lock-set (Eraser-style, pairwise) + goroutine-context confinement + spawn-order analysis over go/ssa",
      "DESIGN.md section 4, C10")
