# One claim()/na() per property. Executed by genmanifest.py.

claim("C20",
      "Aliasing is a static notion: the check decides on all paths that (*Message).clone is a deep, exhaustive copy (every struct field enumerated from go/types; slice fields through a fresh backing array), that every Handler.Serve hand-over in ServeMux.Serve / ServeAsync.Serve receives a clone of the dispatcher's own parameter taken anew per hand-over and in the dispatching goroutine, and that neither dispatcher stores the message or a clone. That is the property itself up to handlers sharing state by other means.",
      "Not covered: handlers that share state among themselves outside the message; user Handler implementations.",
      "SSA value-origin + CFG path rules (fresh-clone-per-hand-over, field-exhaustive deep copy, no back-channel)",
      "DESIGN.md section 4, C20")
