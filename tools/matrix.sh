#!/bin/bash
# usage: matrix.sh [seed-dir ...]
# For every seeded change: make a scratch worktree of /repo, apply the patch there, judge all twenty properties on it
# (mqttcheck -allprops -repo; same verdicts as twenty separate quick checks), remove the worktree. /repo itself and
# /verif/evidence are left untouched. Prints which properties fire. MQTTCHECK_BIN overrides the binary.
export GOFLAGS=-mod=mod GOPROXY=off GOSUMDB=off GOTOOLCHAIN=local
if [ -z "$MQTTCHECK_BIN" ]; then
  (cd /verif/checker && go build -o /verif/bin/mqttcheck .) || exit 2
  export MQTTCHECK_BIN=/verif/bin/mqttcheck
fi
seeds="$@"; [ -z "$seeds" ] && seeds=$(ls -d /verif/seeded/*/)
one() {
  d="$1"; id=$(basename "$d"); want=${id%%-*}
  wt="/tmp/mx-$id"; rm -rf "$wt"
  for try in 1 2 3 4 5; do git -C /repo worktree add -q --detach "$wt" HEAD 2>/dev/null && break; sleep 1; done  # (concurrent adds contend for a lock)
  [ -d "$wt" ] || { echo "$id: worktree failed"; return; }
  if ! git -C "$wt" apply "$d/patch.diff" 2>/dev/null; then echo "$id: PATCH FAILS"; git -C /repo worktree remove --force "$wt"; return; fi
  out=$("$MQTTCHECK_BIN" -allprops -repo "$wt" -verif "/tmp/mxv-$id" 2>&1)
  fired=$(echo "$out" | awk '/^ALLPROPS-END/ && $3 != 0 {printf "%s ", $2}')
  git -C /repo worktree remove --force "$wt"; rm -rf "/tmp/mxv-$id"
  case " $fired" in *" $want "*) st=CAUGHT;; *) st=MISSED;; esac
  echo "$id: $st   fired: $fired"
}
export -f one
printf '%s\n' $seeds | xargs -P 14 -I{} bash -c 'one {}'
git -C /repo worktree prune
