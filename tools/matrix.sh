#!/bin/bash
# usage: matrix.sh [seed-dir ...]
# For every seeded change: make a scratch worktree of /repo, apply the patch there, run every property's quick check against it
# (mqttcheck -repo), remove the worktree. /repo itself and /verif/evidence are left untouched. Prints which properties fire.
export GOFLAGS=-mod=mod GOPROXY=off GOSUMDB=off GOTOOLCHAIN=local
(cd /verif/checker && go build -o /verif/bin/mqttcheck .) || exit 2
seeds="$@"; [ -z "$seeds" ] && seeds=$(ls -d /verif/seeded/*/)
props="C01 C02 C03 C04 C05 C06 C07 C08 C09 C10 C11 C12 C13 C14 C15 C16 C17 C18 C19 C20"
one() {
  d="$1"; id=$(basename "$d"); want=${id%%-*}
  wt="/tmp/mx-$id"; rm -rf "$wt"
  git -C /repo worktree add -q --detach "$wt" HEAD 2>/dev/null || { echo "$id: worktree failed"; return; }
  if ! git -C "$wt" apply "$d/patch.diff" 2>/dev/null; then echo "$id: PATCH FAILS"; git -C /repo worktree remove --force "$wt"; return; fi
  fired=""
  for p in $props; do
    /verif/bin/mqttcheck -property $p -repo "$wt" -verif "/tmp/mxv-$id" >/dev/null 2>&1 || fired="$fired$p "
  done
  git -C /repo worktree remove --force "$wt"; rm -rf "/tmp/mxv-$id"
  case " $fired" in *" $want "*) st=CAUGHT;; *) st=MISSED;; esac
  echo "$id: $st   fired: $fired"
}
export -f one; export props
printf '%s\n' $seeds | xargs -P 6 -I{} bash -c 'one {}'
git -C /repo worktree prune
