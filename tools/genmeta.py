#!/usr/bin/env python3
"""Writes seeded/<id>/meta.json from the agent's README, the independent confirmation log and the detection matrix."""
import json, os, re, sys, glob
root='/verif/seeded'
matrix={}
mf=sys.argv[1] if len(sys.argv)>1 else None
if mf and os.path.exists(mf):
    for l in open(mf):
        m=re.match(r'(\S+): (CAUGHT|MISSED)\s+fired: (.*)',l)
        if m: matrix[m.group(1)]=(m.group(2),m.group(3).split())
confirm={}
for l in open('/verif/seeded/confirm.log'):
    m=re.match(r'(C\d+-m\d+)[ :](.*)',l.strip())
    if m: confirm.setdefault(m.group(1),[]).append(m.group(2).strip())
for d in sorted(glob.glob(root+'/C*-m*')+glob.glob(root+'/C*-rD*')):
    id=os.path.basename(d)
    prop=id.split('-')[0]
    readme=open(d+'/README.agent.md').read() if os.path.exists(d+'/README.agent.md') else ''
    title=readme.strip().splitlines()[0].lstrip('# ').strip() if readme.strip() else ''
    needs=''
    m=re.search(r'(?im)^(?:\*\*)?(?:what it )?needs?(?: to manifest)?(?:\*\*)?\s*[:\-]\s*(.+?)(?:\n\s*\n|\n(?:Commands|Step|#|- ))', readme+'\n\n', re.S)
    if m: needs=' '.join(m.group(1).split())
    files=sorted(set(re.findall(r'^\+\+\+ b/(\S+)', open(d+'/patch.diff').read(), re.M)))
    meta={
      "id": id,
      "breaks_property": prop,
      "summary": title,
      "files_touched": files,
      "needs_to_manifest": needs,
      "produced_by": ("reverse patch of a fix: commit in /repo (regression case for a repaired defect, see known_findings.jsonl)" if '-rD' in id else "independent sub-agent given only the property text and a scratch worktree of /repo (no access to /verif)"),
      "confirmed_by_me": {
         "how": "tools/verify_seed.sh: fresh scratch worktree of /repo HEAD; git apply patch.diff; go build ./... && go test -vet=off -count=1 . (baseline) ; add demo_test.go and run -run TestSeeded 3x with the change (must fail 3/3) and 3x after reverting the change (must pass 3/3); worktree removed afterwards",
         "log": confirm.get(id,[])
      },
      "demonstration": "demo_test.go (package mqtt; drop into the repository root, run: go test -vet=off -count=1 -run TestSeeded .)",
    }
    if '-rD' in id:
        meta["confirmed_by_me"]={"how":"the defect this patch re-introduces was reproduced against the real code when it was found (throw-away tests in /verif/triage, DESIGN.md 9.2); the reverse patch is applied on a scratch worktree by tools/matrix.sh","log":[]}
        meta["demonstration"]="see /verif/triage and DESIGN.md 9.2"
    if id in matrix:
        st,fired=matrix[id]
        meta["static_checks"]={"caught_by_claimed_property": st=="CAUGHT", "properties_whose_quick_check_fires": fired}
    json.dump(meta, open(d+'/meta.json','w'), indent=1)
print("wrote", len(glob.glob(root+'/C*-m*/meta.json')))
