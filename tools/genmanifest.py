#!/usr/bin/env python3
"""Generates /verif/MANIFEST.json from the table below (one entry per property)."""
import json, os, sys

HERE = os.path.dirname(os.path.dirname(os.path.abspath(__file__)))

# id -> (claimed?, level text, level note, technique, design ref)
P = {}

def claim(pid, text, note, technique, ref):
    P[pid] = dict(claimed=True, text=text, note=note, technique=technique, ref=ref)

def na(pid, reason):
    P[pid] = dict(claimed=False, reason=reason)

TRUST = ("Trusted base: go/packages + go/types + go/ssa (x/tools v0.29.0) faithfully represent /repo's non-test sources "
         "of package mqtt for GOARCH=amd64 (thorough: also 386); the checker's own rule code, including the "
         "source-level inliner that normalises helper functions absent from the reference tree before the rules run "
         "(semantics-preserving by construction, identity on the unchanged tree, DESIGN.md 9.6/9.7) and the path-feasibility "
         "reasoning all path queries share (nil tests of values known non-nil, conditions tested twice, constants that reach a "
         "test through a result variable: only paths no execution takes are removed). Known limits: DESIGN.md 9.5. ")

exec(open(os.path.join(HERE, "tools", "manifest_table.py")).read())

ADD = {
 "C01": " Also decided: every early exit of the Retry loop puts the unattempted entries back; the reconnect loop stops only on request (context done, Disconnect, graceful end); the reader goroutine records the connection error before Done() closes (the loop reads Err() right after it); the context the reconnect loop dials with is rebound to context.Background() at the first success, so the loop outlives the context passed to Connect; a task leaves the task queue only by being popped from its front by the task goroutine, and the popped task is executed on every path.",
 "C02": " Also decided: every failure of the QoS 2 exchange after registration carries a retry handle that the error wrappers keep; early exits of the Retry loop put the unattempted entries back; the handles of the QoS 2 exchange re-issue their stage with the context and client Retry gives them and capture nothing of the failed attempt (R-C02-8).",
 "C03": " Also decided: Retry stops at the first failing retransmission (entries run on a broken connection queue themselves again and arrive out of order).",
 "C16": " Also decided: the keep-alive goroutine records KeepAlive's result only while its own context is live (a stopped keep-alive does not turn Err() non-nil after a graceful Disconnect); on the `disconnected` case the reconnect loop does not close the connection itself (R-C16-6).",
 "C04": " Also decided: the Message a PUBLISH is parsed into is a fresh object per packet (a held QoS 2 message cannot be overwritten by the next PUBLISH).",
 "C05": " Also decided: Message.Dup is assigned on every path before the PUBLISH is packed (the DUP bit on the wire is the one decided for this transmission); the inbound identifier is read at the offset right after the topic; the subscription list that re-SUBSCRIBE packets are built from records the requested QoS before BaseClient.Subscribe overwrites it with the granted one; the remaining-length decoder accepts all four length bytes (a decoder that gives up earlier rejects legal large bodies).",
 "C07": " Also decided: a wait shared between the QoS levels has no live case on the waiter of another acknowledgement kind (a PUBACK cannot complete the PUBREC stage).",
 "C08": " Also decided: the loop in which Resubscribe re-issues its snapshot ends only when the snapshot is exhausted and no iteration skips its request; the reconnect loop calls Retry after every successful connect.",
 "C09": " Also decided: every path of the reconnect goroutine to a return passes ctx-done, `disconnected` or Err() == nil; a failed ping makes KeepAlive return a non-nil error and leaves the closed connection with a non-nil Err(); the loop's context is rebound to context.Background() at the first success.",
 "C11": " Also decided: BaseClient.Close closes the transport on every path, and so does Disconnect once DISCONNECT was written; the packet body allocation is bounded by the protocol maximum (a crafted length cannot make the reader wait for gigabytes).",
 "C12": " Also decided: PUBREL is written only by the PUBREL stage of the QoS 2 publish.",
 "C13": " Also decided: after a keep-alive failure the closed connection reports a non-nil Err(), so the loop redials.",
 "C15": " Also decided: Message.ID is written only in the publish implementation, only when it is 0, from newID(); the counter is followed through pointer conversions and helper methods.",
 "C18": " Also decided: the reconnect loop then stops only on request (so a new connection is established); what is reported is identifiable as RequestTimeoutError.",
 "C19": " Also decided: every context bounded by ResponseTimeout is the requestContext wrapper and its Err() yields RequestTimeoutError whenever the bound can have expired; every reflect.Value.Elem() the chain walk of (*Error).Is can reach is dominated by a Kind() == reflect.Ptr test of the same error (errors.Is answers rather than panics on a chain ending in a value-typed error).",
}
for _pid, _t in ADD.items():
    if _pid in P and P[_pid].get("claimed"):
        P[_pid]["text"] += _t

ALL = ["C%02d" % i for i in range(1, 21)]
checks = []
napp = []
for pid in ALL:
    e = P.get(pid)
    if e is None:
        napp.append({"property_id": pid, "reason": "no check built yet in this round (work in progress); see DESIGN.md section 4 for the planned structural clauses"})
        continue
    if not e["claimed"]:
        napp.append({"property_id": pid, "reason": e["reason"]})
        continue
    checks.append({
        "property_id": pid,
        "quick_cmd": "./check.sh %s quick" % pid,
        "thorough_cmd": "./check.sh %s thorough" % pid,
        "evidence_file": "/verif/evidence/%s.json" % pid,
        "replay_cmd_template": "./bin/mqttcheck -replay {path}",
        "engine": "mqttcheck",
        "level_claimed": {"category": "other", "text": e["text"], "design_ref": e["ref"]},
        "level_note": TRUST + e["note"],
        "technique": e["technique"] + "; on the type-checked SSA of /repo's current tree after source-level inlining of helper functions that are new relative to the reference tree",
    })

m = {
    "version": 1,
    "setup_cmd": "cd /verif/checker && GOFLAGS=-mod=mod GOPROXY=off GOSUMDB=off GOTOOLCHAIN=local GOWORK=off go build -o /verif/bin/mqttcheck .",
    "hooks": {
        "guard": "verif",
        "enable": "none needed: the checks are static and analyse /repo's sources as they are; no instrumentation exists (no file in /repo is guarded by the tag)",
        "baseline_off_cmd": "cd /repo && GOFLAGS=-mod=mod go build ./... && GOFLAGS=-mod=mod go test -vet=off -count=1 -timeout 25m ./...",
        "source_commits": [],
        "add_only": True,
    },
    "engines": [{
        "name": "mqttcheck",
        "path": "/verif/checker",
        "serves_properties": [c["property_id"] for c in checks],
        "kind_free_text": "repository-specific static analyser (Go, golang.org/x/tools v0.29.0: go/packages, go/types, go/ssa): per-property rule sets over the type-checked SSA of package mqtt — CFG path rules (must-precede / must-follow / dominated-by-edge), who-may-write / who-may-call, value-origin identity through closures and cells, constant/table checks, lock-set and bounds analyses; a source-level normalisation pass (inlining of new helper functions, scalar replacement of helper structs) and an infeasible-edge oracle make the rules independent of where a refactoring put the code. Runs no library code.",
    }],
    "checks": checks,
    "notes": "All checks are static analyses of /repo's current working tree (level 'other': structural necessary conditions decided on all paths; behaviour itself is neither executed nor modelled). Genuine defects found on the pinned tree were repaired by unguarded 'fix:' commits in /repo and are recorded as 'fixed' in /verif/known_findings.jsonl. /verif/seeded holds independently produced breaking changes used to validate the checks; /verif/triage holds the one-off reproductions used to triage defects (not checks).",
    "not_applicable": napp,
}
json.dump(m, open(os.path.join(HERE, "MANIFEST.json"), "w"), indent=1)
print("claimed:", [c["property_id"] for c in checks])
print("not applicable:", [n["property_id"] for n in napp])
