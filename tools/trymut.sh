#!/bin/bash
# usage: trymut.sh <patch.diff> <prop> [<prop>...]   -- applies the patch to /repo, runs the quick checks, reverts.
# Evidence files written during a mutant run are restored afterwards.
export GOFLAGS=-mod=mod GOPROXY=off GOSUMDB=off GOTOOLCHAIN=local
patch="$1"; shift
cd /repo || exit 2
if ! git diff --quiet; then echo "repo dirty"; exit 2; fi
if ! git apply "$patch"; then echo "PATCH DOES NOT APPLY: $patch"; exit 3; fi
tmp=$(mktemp -d /tmp/trymut.XXXX)
cp -r /verif/evidence "$tmp/ev" 2>/dev/null
rc=0
for p in "$@"; do
  out=$(/verif/bin/mqttcheck -property "$p" 2>&1); c=$?
  if [ $c -ne 0 ]; then echo "[$p] CAUGHT:"; echo "$out" | grep -E "VIOLATED|UNDECIDED|ANCHOR|LOAD|PANIC" | head -8; else echo "[$p] missed"; rc=1; fi
done
git -C /repo checkout -- .
rm -rf /verif/evidence; [ -d "$tmp/ev" ] && cp -r "$tmp/ev" /verif/evidence
rm -rf "$tmp"
exit $rc
