package triage

import (
	"context"
	"errors"
	"fmt"
	"io"
	"net"
	"testing"
	"time"

	mqtt "github.com/at-wat/mqtt-go"
)

func pipeClient() (*mqtt.BaseClient, net.Conn) {
	a, b := net.Pipe()
	return &mqtt.BaseClient{Transport: a}, b
}

func connack(t *testing.T, srv net.Conn) {
	typ, _, err := readPkt(srv)
	if err != nil || typ != 0x10 {
		t.Errorf("expected CONNECT, got %x %v", typ, err)
		return
	}
	srv.Write([]byte{0x20, 0x02, 0x00, 0x00})
}

// D2: short SUBACK crashes the reader goroutine.
func TestD2(t *testing.T) {
	cli, srv := pipeClient()
	go func() { connack(t, srv); srv.Write([]byte{0x90, 0x01, 0x00}) }()
	if _, err := cli.Connect(context.Background(), "c"); err != nil {
		t.Fatal(err)
	}
	<-cli.Done()
	t.Logf("survived: %v", cli.Err())
}

// D3: over-long remaining length.
func TestD3(t *testing.T) {
	cli, srv := pipeClient()
	go func() {
		connack(t, srv)
		srv.Write([]byte{0x30, 0xFF, 0xFF, 0xFF, 0xFF, 0xFF, 0xFF, 0xFF, 0xFF, 0xFF, 0x01})
	}()
	if _, err := cli.Connect(context.Background(), "c"); err != nil {
		t.Fatal(err)
	}
	<-cli.Done()
	t.Logf("survived: %v", cli.Err())
}

// D1: Retry re-queues completed entries.
func TestD1(t *testing.T) {
	ctx := context.Background()
	rc := &mqtt.RetryClient{}
	var lg logT
	// broker behaviour per connection: ack PUBLISH iff ack[n]; else close on first PUBLISH.
	run := func(n int, srv net.Conn, ack bool) {
		connack(t, srv)
		for {
			typ, body, err := readPkt(srv)
			if err != nil {
				return
			}
			if typ&0xF0 == 0x30 {
				tl := int(body[0])<<8 | int(body[1])
				id := body[2+tl : 4+tl]
				lg.add(fmt.Sprintf("conn%d PUBLISH %s dup=%v", n, body[2:2+tl], typ&0x08 != 0))
				if !ack {
					srv.Close()
					return
				}
				srv.Write([]byte{0x40, 0x02, id[0], id[1]})
				lg.add(fmt.Sprintf("conn%d PUBACK %s", n, body[2:2+tl]))
			}
		}
	}
	connect := func(n int, ack bool) *mqtt.BaseClient {
		cli, srv := pipeClient()
		go run(n, srv, ack)
		rc.SetClient(ctx, cli)
		if _, err := rc.Connect(ctx, "c"); err != nil {
			t.Fatal(err)
		}
		return cli
	}
	c1 := connect(1, false)
	rc.Publish(ctx, &mqtt.Message{Topic: "m1", QoS: mqtt.QoS1})
	<-c1.Done()
	rc.Publish(ctx, &mqtt.Message{Topic: "m2", QoS: mqtt.QoS1})
	time.Sleep(50 * time.Millisecond)
	c2 := connect(2, false)
	rc.Retry(ctx)
	<-c2.Done()
	time.Sleep(50 * time.Millisecond)
	t.Logf("stats after conn2: %+v", rc.Stats())
	connect(3, true)
	rc.Retry(ctx)
	time.Sleep(200 * time.Millisecond)
	for _, l := range lg.get() {
		t.Log(l)
	}
	t.Logf("stats after conn3: %+v", rc.Stats())
}

type errAfterWrite struct {
	net.Conn
	match byte
}

func (e *errAfterWrite) Write(b []byte) (int, error) {
	n, err := e.Conn.Write(b)
	if err == nil && b[0] == e.match {
		return n, errors.New("write error reported after the bytes were delivered")
	}
	return n, err
}

// D4: PUBREL write error hands out the PUBLISH handle.
func TestD4(t *testing.T) {
	ctx := context.Background()
	var lg logT
	broker := func(n int, srv net.Conn) {
		connack(t, srv)
		for {
			typ, body, err := readPkt(srv)
			if err != nil {
				return
			}
			switch typ & 0xF0 {
			case 0x30:
				tl := int(body[0])<<8 | int(body[1])
				lg.add(fmt.Sprintf("conn%d PUBLISH id=%x dup=%v", n, body[2+tl:4+tl], typ&0x08 != 0))
				srv.Write([]byte{0x50, 0x02, body[2+tl], body[3+tl]})
			case 0x60:
				lg.add(fmt.Sprintf("conn%d PUBREL id=%x", n, body))
				srv.Write([]byte{0x70, 0x02, body[0], body[1]})
			}
		}
	}
	a, b := net.Pipe()
	cli := &mqtt.BaseClient{Transport: &errAfterWrite{a, 0x62}}
	go broker(1, b)
	if _, err := cli.Connect(ctx, "c"); err != nil {
		t.Fatal(err)
	}
	err := cli.Publish(ctx, &mqtt.Message{Topic: "m", QoS: mqtt.QoS2})
	t.Logf("publish: %v", err)
	r, ok := err.(mqtt.ErrorWithRetry)
	if !ok {
		t.Fatal("no retry handle")
	}
	cli2, srv2 := pipeClient()
	go broker(2, srv2)
	if _, err := cli2.Connect(ctx, "c"); err != nil {
		t.Fatal(err)
	}
	t.Logf("retry: %v", r.Retry(ctx, cli2))
	for _, l := range lg.get() {
		t.Log(l)
	}
}

var _ = io.EOF
