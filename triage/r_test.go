package triage

import (
	"context"
	"sync"
	"testing"
	"time"

	mqtt "github.com/at-wat/mqtt-go"
)

// D7a: Stats() vs retry queue.
func TestD7a(t *testing.T) {
	ctx := context.Background()
	rc := &mqtt.RetryClient{}
	c1, s1 := pipeClient()
	go broker(s1, false, func() { s1.Close() })
	rc.SetClient(ctx, c1)
	rc.Connect(ctx, "c")
	var wg sync.WaitGroup
	wg.Add(1)
	go func() {
		defer wg.Done()
		for i := 0; i < 2000; i++ {
			rc.Stats()
		}
	}()
	for i := 0; i < 20; i++ {
		rc.Publish(ctx, &mqtt.Message{Topic: "m", QoS: mqtt.QoS1})
	}
	wg.Wait()
	time.Sleep(50 * time.Millisecond)
}

// D7b: Ping concurrent with Connect on the same BaseClient.
func TestD7b(t *testing.T) {
	ctx := context.Background()
	for k := 0; k < 200; k++ {
		cli, srv := pipeClient()
		go broker(srv, true, nil)
		stop := make(chan struct{})
		var wg sync.WaitGroup
		wg.Add(1)
		go func() {
			defer wg.Done()
			for {
				select {
				case <-stop:
					return
				default:
				}
				c2, cancel := context.WithTimeout(ctx, time.Millisecond)
				cli.Ping(c2)
				cancel()
			}
		}()
		cli.Connect(ctx, "c")
		close(stop)
		wg.Wait()
		cli.Close()
	}
}

// D7c: CONNACK sent before CONNECT was read.
func TestD7c(t *testing.T) {
	ctx := context.Background()
	for i := 0; i < 50; i++ {
		cli, srv := pipeClient()
		go func() {
			srv.Write([]byte{0x20, 0x02, 0x00, 0x00})
			broker(srv, true, nil)
		}()
		c2, cancel := context.WithTimeout(ctx, 50*time.Millisecond)
		cli.Connect(c2, "c")
		cancel()
		cli.Close()
	}
}

// D7d: Publish while the first SetClient runs.
func TestD7d(t *testing.T) {
	ctx := context.Background()
	for i := 0; i < 50; i++ {
		rc := &mqtt.RetryClient{}
		cli, srv := pipeClient()
		go broker(srv, true, nil)
		var wg sync.WaitGroup
		wg.Add(1)
		go func() {
			defer wg.Done()
			rc.Publish(ctx, &mqtt.Message{Topic: "m", QoS: mqtt.QoS1, Payload: []byte{1}})
		}()
		rc.SetClient(ctx, cli)
		wg.Wait()
		rc.Connect(ctx, "c")
		time.Sleep(2 * time.Millisecond)
		rc.Disconnect(ctx)
	}
}
