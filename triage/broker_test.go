package triage

import (
	"context"
	"io"
	"net"
	"sync"
	"testing"
	"time"

	mqtt "github.com/at-wat/mqtt-go"
)

// readPkt reads one MQTT packet from r.
func readPkt(r io.Reader) (byte, []byte, error) {
	h := make([]byte, 1)
	if _, err := io.ReadFull(r, h); err != nil {
		return 0, nil, err
	}
	n, m := 0, 1
	for {
		b := make([]byte, 1)
		if _, err := io.ReadFull(r, b); err != nil {
			return 0, nil, err
		}
		n += int(b[0]&0x7F) * m
		m *= 128
		if b[0]&0x80 == 0 {
			break
		}
	}
	body := make([]byte, n)
	if _, err := io.ReadFull(r, body); err != nil {
		return 0, nil, err
	}
	return h[0], body, nil
}

type logT struct {
	mu  sync.Mutex
	log []string
}

func (l *logT) add(s string) { l.mu.Lock(); l.log = append(l.log, s); l.mu.Unlock() }
func (l *logT) get() []string {
	l.mu.Lock()
	defer l.mu.Unlock()
	return append([]string{}, l.log...)
}

var _ = context.Background
var _ = net.Pipe
var _ = time.Second
var _ = testing.Short
var _ mqtt.QoS
