package triage

import (
	"context"
	"net"
	"sync"
	"sync/atomic"
	"testing"
	"time"

	mqtt "github.com/at-wat/mqtt-go"
)

// generic broker: answers CONNECT, PINGREQ; PUBLISH qos1 acked iff ackPub.
func broker(srv net.Conn, ackPub bool, onPub func()) {
	for {
		typ, body, err := readPkt(srv)
		if err != nil {
			return
		}
		switch typ & 0xF0 {
		case 0x10:
			srv.Write([]byte{0x20, 0x02, 0x00, 0x00})
		case 0xC0:
			srv.Write([]byte{0xD0, 0x00})
		case 0x30:
			if onPub != nil {
				onPub()
			}
			if ackPub && typ&0x06 == 0x02 {
				tl := int(body[0])<<8 | int(body[1])
				srv.Write([]byte{0x40, 0x02, body[2+tl], body[3+tl]})
			}
		case 0xE0:
			return
		}
	}
}

// D5: stale keep-alive goroutine poisons the next connection's Err().
func TestD5(t *testing.T) {
	var n int32
	var mu sync.Mutex
	var srvs []net.Conn
	rc, err := mqtt.NewReconnectClient(
		mqtt.DialerFunc(func(ctx context.Context) (*mqtt.BaseClient, error) {
			cli, srv := pipeClient()
			atomic.AddInt32(&n, 1)
			mu.Lock()
			srvs = append(srvs, srv)
			mu.Unlock()
			go broker(srv, true, nil)
			return cli, nil
		}),
		mqtt.WithPingInterval(100*time.Millisecond),
		mqtt.WithTimeout(100*time.Millisecond),
		mqtt.WithReconnectWait(10*time.Millisecond, 20*time.Millisecond),
	)
	if err != nil {
		t.Fatal(err)
	}
	ctx := context.Background()
	if _, err := rc.Connect(ctx, "c"); err != nil {
		t.Fatal(err)
	}
	time.Sleep(20 * time.Millisecond)
	mu.Lock()
	srvs[0].Close() // peer closes connection 1
	mu.Unlock()
	time.Sleep(60 * time.Millisecond)
	c2 := rc.Client()
	t.Logf("connections=%d; conn2 Err() right after reconnect: %v", atomic.LoadInt32(&n), c2.Err())
	select {
	case <-c2.Done():
		t.Fatal("conn2 not alive")
	default:
	}
	time.Sleep(150 * time.Millisecond)
	select {
	case <-c2.Done():
		t.Log("conn2 ended")
	default:
		t.Log("conn2 still alive and answering pings")
	}
	t.Logf("conn2 Err() later: %v (same client: %v)", c2.Err(), rc.Client() == c2)
}

// D6: retransmission is not bounded by ResponseTimeout.
func TestD6(t *testing.T) {
	ctx := context.Background()
	var errs logT
	rc := &mqtt.RetryClient{ResponseTimeout: 50 * time.Millisecond, OnError: func(err error) { errs.add(err.Error()) }}
	c1, s1 := pipeClient()
	go broker(s1, false, nil)
	rc.SetClient(ctx, c1)
	rc.Connect(ctx, "c")
	rc.Publish(ctx, &mqtt.Message{Topic: "m1", QoS: mqtt.QoS1})
	select {
	case <-c1.Done():
		t.Log("conn1 closed after response timeout (expected)")
	case <-time.After(time.Second):
		t.Fatal("conn1 not closed")
	}
	c2, s2 := pipeClient()
	go broker(s2, false, nil)
	rc.SetClient(ctx, c2)
	rc.Connect(ctx, "c")
	rc.Retry(ctx)
	select {
	case <-c2.Done():
		t.Log("conn2 closed after response timeout")
	case <-time.After(time.Second):
		t.Logf("conn2 still open 1s after the retransmission (20x ResponseTimeout); stats %+v", rc.Stats())
	}
	t.Logf("OnError: %v", errs.get())
}
